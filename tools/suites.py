"""Correspondence suites: each produces operation lines, compares implementation and model outputs, and evaluates the
property oracle directly on the implementation's output (independent of the Lean model)."""
import json, re, struct, sys
if hasattr(sys, "set_int_max_str_digits"):
    sys.set_int_max_str_digits(0)      # literals of thousands of digits are compared as exact integers
from fractions import Fraction
import gens, mpack
from gens import parse_tree, show_tree, num_value

CODES = ("Ok", "EmptyInput", "IncompleteInput", "InvalidInput", "NoMemory", "TooDeep")


class Case:
    __slots__ = ("line", "meta")

    def __init__(self, line, **meta):
        self.line = line
        self.meta = meta


def is_crash(h):
    return h is None or h.startswith("CRASH") or h.startswith("HANG") or h == "SKIPPED"


def hx(b):
    return b.hex() if b else "-"


class Suite:
    name = "suite"
    cfg = {}          # harness build configuration

    def __init__(self, **kw):
        self.__dict__.update(kw)

    def generate(self, rng, tier):
        return []

    def canon_h(self, case, h):
        op = case.line.split(" ", 1)[0]
        if op in ("jsonrt", "mprt", "cross") and (h.endswith(" eq") or h.endswith(" ne")):
            return h[:-3]
        if op in ("jsonser", "mpser") and h.startswith("nomem "):
            return "ok " + h[6:]          # the flag only says whether building the document succeeded
        return h

    def canon_m(self, case, m):
        return m

    def compare(self, case, h, m):
        """None if implementation and model agree on this case, else a short description"""
        if m == "FAULT" or m.startswith("FAULT "):
            return None if is_crash(h) else "model predicts a fault, implementation returned: %s" % h[:100]
        if is_crash(h):
            return "implementation %s, model: %s" % (h, m[:100])
        a, b = self.canon_h(case, h), self.canon_m(case, m)
        return None if a == b else "impl: %s | model: %s" % (a[:160], b[:160])

    def oracle(self, case, h):
        """None if the property holds on this case, else (signature, description)"""
        if is_crash(h):
            return ("crash:" + self.name + ":" + h, "the library crashed or hung: " + h)
        return None

    def feature(self, case, h):
        """key describing which non-trivial behaviour the case exercised (None = trivial)"""
        return None

    def neighbours(self, case, rng):
        return []


def cfgbits(cfg):
    return (1 if cfg.get("ENABLE_COMMENTS") else 0) | (2 if cfg.get("ENABLE_NAN") else 0) | (4 if cfg.get("ENABLE_INFINITY") else 0) | \
           (8 if cfg.get("DECODE_UNICODE", 1) else 0)


# ================================================================================================ C17: unicode
class UniSuite(Suite):
    """exhaustive: every \\uXXXX code unit in three hex-case spellings, surrogate pairs, and at key / mid-string positions"""
    name = "uni"

    def generate(self, rng, tier):
        cb = cfgbits(self.cfg)
        cases = []

        def spell(cu, mode):
            h = "%04x" % cu
            if mode == 1:
                h = h.upper()
            elif mode == 2:
                h = "".join(c.upper() if (i + cu) % 2 else c for i, c in enumerate(h))
            return b"\\u" + h.encode()
        for cu in range(0x10000):
            for mode in range(3):
                txt = b'"' + spell(cu, mode) + b'"'
                cases.append(Case("jsonde %d 0 10 %s" % (cb, txt.hex()), kind="unit", cu=cu, pre=b"", post=b""))
        # position independence: inside a string and inside a key
        for cu in list(range(0, 0x10000, 97)) + [0x7F, 0x80, 0x7FF, 0x800, 0xD7FF, 0xE000, 0xFFFF]:
            txt = b'{"k' + spell(cu, cu % 3) + b'z":"a' + spell(cu, (cu + 1) % 3) + b'b"}'
            cases.append(Case("jsonde %d 0 10 %s" % (cb, txt.hex()), kind="pos", cu=cu))
        # "at any position": escapes at every offset around the growth steps of the string builder (31, 63, 127, 255 bytes), in a string and in a key
        for off in list(range(26, 34)) + list(range(58, 66)) + list(range(122, 130)) + list(range(250, 258)):
            for cu, lo in ((0xE9, None), (0x20AC, None), (0x7FF, None), (0x800, None), (0xFFFF, None), (0xD83D, 0xDE00), (0xDBFF, 0xDFFF), (0xD800, 0xDC00)):
                esc = spell(cu, off % 3) + (spell(lo, (off + 1) % 3) if lo is not None else b"")
                want = gens.utf8(cu if lo is None else 0x10000 + ((cu - 0xD800) << 10) + (lo - 0xDC00))
                pre = bytes([0x61 + (j % 26) for j in range(off)])
                cases.append(Case("jsonde %d 0 10 %s" % (cb, (b'"' + pre + esc + b'tail"').hex()), kind="offset", want="S" + (pre + want + b"tail").hex()))
                cases.append(Case("jsonde %d 0 10 %s" % (cb, (b'{"' + pre + esc + b'":1}').hex()), kind="offset", want="{" + (pre + want).hex() + ":U1}"))
        # surrogate pairs
        if tier == "thorough":
            his = range(0xD800, 0xDC00)
            los = lambda hi: range(0xDC00, 0xE000)
        else:
            his = range(0xD800, 0xDC00)
            los = lambda hi: [0xDC00 + ((hi * 37 + 11 * j) % 1024) for j in range(24)] + [0xDC00, 0xDFFF]
        for hi in his:
            for lo in los(hi):
                txt = b'"' + spell(hi, hi % 3) + spell(lo, lo % 3) + b'"'
                cases.append(Case("jsonde %d 0 10 %s" % (cb, txt.hex()), kind="pair", hi=hi, lo=lo))
        if tier != "thorough":
            for lo in range(0xDC00, 0xE000):
                for hi in [0xD800, 0xDBFF, 0xD800 + (lo * 7) % 1024]:
                    txt = b'"' + spell(hi, 0) + spell(lo, 1) + b'"'
                    cases.append(Case("jsonde %d 0 10 %s" % (cb, txt.hex()), kind="pair", hi=hi, lo=lo))
        # unpaired / reversed surrogates never crash
        for s in [b'"\\udc00"', b'"\\ud800"', b'"\\udc00\\ud800"', b'"\\ud800x"', b'"\\ud800\\u0041"', b'"\\ud800\\ud800\\udc00"', b'"a\\udfffb\\udbff"']:
            cases.append(Case("jsonde %d 0 10 %s" % (cb, s.hex()), kind="unpaired"))
        # escaping is the inverse: every byte and every byte pair as string content and as key
        for a in range(256):
            cases.append(Case("jsonrt %d t:S%02x" % (cb, a), kind="rt", content=bytes([a])))
            cases.append(Case("jsonrt %d t:{%02x:N}" % (cb, a), kind="rtkey", content=bytes([a])))
        step = 1 if tier == "thorough" else 1
        for a in range(0, 256, step):
            for b in range(256):
                cases.append(Case("jsonrt %d t:S%02x%02x" % (cb, a, b), kind="rt", content=bytes([a, b])))
        return cases

    ESC = {0x22: b'\\"', 0x5C: b"\\\\", 0x08: b"\\b", 0x0C: b"\\f", 0x0A: b"\\n", 0x0D: b"\\r", 0x09: b"\\t", 0x00: b"\\u0000"}

    def oracle(self, case, h):
        o = Suite.oracle(self, case, h)
        if o:
            return o
        k = case.meta["kind"]
        f = h.split(" ")
        if k == "unit":
            cu = case.meta["cu"]
            if 0xD800 <= cu < 0xE000:
                return None
            want = "Ok S%s" % gens.utf8(cu).hex()
            if " ".join(f[:2]) != want:
                return ("uni:bmp", "\\u%04x decoded to '%s', expected '%s'" % (cu, " ".join(f[:2]), want))
        elif k == "pos":
            cu = case.meta["cu"]
            if 0xD800 <= cu < 0xE000:
                return None
            u = gens.utf8(cu).hex()
            want = "Ok {6b%s7a:S61%s62}" % (u, u)
            if " ".join(f[:2]) != want:
                return ("uni:position", "\\u%04x inside key/string decoded to '%s', expected '%s'" % (cu, " ".join(f[:2]), want))
        elif k == "offset":
            want = "Ok " + case.meta["want"]
            if " ".join(f[:2]) != want:
                return ("uni:offset", "an escape after %d bytes decoded to '%s', expected '%s'" % ((len(case.line.split(" ")[-1]) // 2), " ".join(f[:2])[:80], want[:80]))
        elif k == "pair":
            cp = 0x10000 + ((case.meta["hi"] - 0xD800) << 10) + (case.meta["lo"] - 0xDC00)
            want = "Ok S%s" % gens.utf8(cp).hex()
            if " ".join(f[:2]) != want:
                return ("uni:pair", "\\u%04x\\u%04x decoded to '%s', expected '%s'" % (case.meta["hi"], case.meta["lo"], " ".join(f[:2]), want))
        elif k in ("rt", "rtkey"):
            c = case.meta["content"]
            text = bytes.fromhex(f[1]) if f[1] != "-" else b""
            want_tree = ("S" + c.hex()) if k == "rt" else "{%s:N}" % c.hex()
            if f[2] != "Ok" or f[3] != want_tree:
                return ("uni:roundtrip", "bytes %s came back as '%s %s'" % (c.hex(), f[2], f[3]))
            esc = b"".join(self.ESC.get(x, bytes([x])) for x in c)
            want_text = (b'"' + esc + b'"') if k == "rt" else (b'{"' + esc + b'":null}')
            if text != want_text:
                return ("uni:escape-minimal", "bytes %s serialized as %r, expected %r" % (c.hex(), text, want_text))
        return None

    def feature(self, case, h):
        k = case.meta["kind"]
        if k == "unit":
            return "unit:%04x" % case.meta["cu"] if case.meta["cu"] >= 0x80 else None
        if k == "pair":
            return "pair:%x:%x" % (case.meta["hi"], case.meta["lo"])
        if k in ("rt", "rtkey"):
            c = case.meta["content"]
            return (k + ":" + c.hex()) if any(x in self.ESC or x >= 0x80 for x in c) else None
        return k + ":" + case.line[-12:]


# ================================================================================================ JSON deserialization
READER_KINDS = [0, 1, 2, 3, 4, 5, 6, 7, 8, 9]


class JsonValidSuite(Suite):
    """C01: grammar-generated RFC 8259 texts whose denoted value the generator knows"""
    name = "jsonvalid"

    def generate(self, rng, tier):
        cb = cfgbits(self.cfg)
        n = self.n if hasattr(self, "n") else (6000 if tier == "quick" else 400000)
        cases = []
        for i in range(n):
            lim = rng.choice([10, 10, 10, 4, 5, 6, 50])
            exp, txt = gens.gen_json_doc(rng, maxdepth=min(lim, rng.choice([1, 2, 3, 4, 5])), budget=rng.choice([3, 8, 14, 30]))
            rk = rng.choice(READER_KINDS) + (100 if rng.random() < 0.3 else 0)
            if (rk % 100) in (1, 6) and b"\x00" in txt:
                rk = 2
            cases.append(Case("jsonde %d %d %d %s" % (cb, rk, lim, txt.hex()), exp=exp, text=txt))
        return cases

    def canon_h(self, case, h):
        f = h.split(" ")
        if len(f) >= 3 and f[2] == "-":
            return " ".join(f[:2])
        return h

    def canon_m(self, case, m):
        rk = int(case.line.split(" ")[2]) % 100
        if rk not in (0, 5, 8, 9):
            return " ".join(m.split(" ")[:2])
        return m

    def oracle(self, case, h):
        o = Suite.oracle(self, case, h)
        if o:
            return o
        f = h.split(" ")
        txt = case.meta["text"]
        if f[0] != "Ok":
            body = txt.strip(b" \t\r\n")
            topnum = body[:1] in b"-0123456789" and txt.rstrip(b" \t\r\n") != txt
            return ("jsonvalid:rejected" + (":top-level-number-then-whitespace" if topnum else ""),
                    "valid RFC 8259 text %r gave %s" % (txt[:80], f[0]))
        if "NOT-NUL-TERMINATED" in h:
            return ("jsonvalid:not-nul-terminated", "as<const char*>() is not NUL-terminated at size()")
        probs = gens.match_expected(case.meta["exp"], parse_tree(f[1]))
        if probs:
            sig = "jsonvalid:wrong-value"
            if any("relative error" in p or "infinity" in p or "magnitude" in p for p in probs):
                sig = "jsonvalid:number-accuracy"
            elif any("expected keys" in p for p in probs) and b"\\u0000" in txt:
                sig = "jsonvalid:key-with-nul"
            return (sig, "text %r: %s" % (txt[:80], "; ".join(probs[:3])))
        return None

    def feature(self, case, h):
        t = case.meta["text"]
        return t if len(t) > 6 else None

    def neighbours(self, case, rng):
        return []


# ================================================================================================ C02: JSON serialization
def check_printed_number(stored, lit):
    """C12 print clause: stored = ('f',bits)/('d',bits)/('U',n)/('I',n); lit = ('Z',n) or ('Q',v,sig) or ('N',)"""
    if stored[0] in "UI":
        return None if lit == ("Z", stored[1]) else "integer %d printed as %s" % (stored[1], lit)
    x = num_value(stored)
    if x in ("nan", "inf", "-inf"):
        return None if lit == ("N",) else "non-finite value printed as %s" % (lit,)
    if lit[0] == "Z":
        v = Fraction(lit[1])
    elif lit[0] == "Q":
        v = lit[1]
    else:
        return "number printed as %s" % (lit,)
    tol = Fraction(1, 10 ** 6) if stored[0] == "f" else Fraction(1, 10 ** 9)
    a = abs(x)
    if a != 0 and not (Fraction(1, 10 ** 300) <= a <= Fraction(10) ** 300):
        return None
    if abs(v - x) > tol * max(1, a):
        return "%s printed with error %.3e (allowed %s*max(1,|x|))" % (show_tree(stored), float(abs(v - x) / max(1, a)), "1e-6" if stored[0] == "f" else "1e-9")
    return None


def match_serialized(stored, parsed, path="$"):
    """stored: tree extracted from the document; parsed: py_json_parse of the produced text"""
    k = stored[0]
    if k in "UIfd":
        p = check_printed_number(stored, parsed)
        return ["%s: %s" % (path, p)] if p else []
    if k == "N":
        return [] if parsed == ("N",) else ["%s: null printed as %s" % (path, parsed)]
    if k == "B":
        return [] if parsed == stored else ["%s: bool printed as %s" % (path, parsed)]
    if k == "S":
        return [] if parsed == stored else ["%s: string %s printed as %s" % (path, stored[1].hex(), parsed)]
    if k == "R":
        try:
            want = gens.py_json_parse(stored[1])
        except Exception:
            return []
        return [] if want == parsed else ["%s: raw value not verbatim" % path]
    if k == "A":
        if parsed[0] != "A" or len(parsed[1]) != len(stored[1]):
            return ["%s: array printed as %s" % (path, str(parsed)[:60])]
        out = []
        for i, (a, b) in enumerate(zip(stored[1], parsed[1])):
            out += match_serialized(a, b, "%s[%d]" % (path, i))
        return out
    if k == "O":
        if parsed[0] != "O" or [m[0] for m in stored[1]] != [m[0] for m in parsed[1]]:
            return ["%s: object members/order differ: %s" % (path, str(parsed)[:80])]
        out = []
        for (kk, a), (_, b) in zip(stored[1], parsed[1]):
            out += match_serialized(a, b, "%s.%s" % (path, kk.hex()))
        return out
    return ["%s: unexpected node %s" % (path, k)]


class JsonSerSuite(Suite):
    """C02: documents built through the API (terms) or obtained by deserializing; all destinations; bounded buffers"""
    name = "jsonser"

    def generate(self, rng, tier):
        cb = cfgbits(self.cfg)
        n = getattr(self, "n", 2500 if tier == "quick" else 150000)
        cases = []
        for i in range(n):
            r = rng.random()
            if r < 0.75:
                t = gens.gen_doc_term(rng, raw="json")
                spec = "t:" + show_tree(t)
            elif r < 0.9:
                v = mpack.gen_value(rng, binext=False)
                spec = "m:" + mpack.encode(v, rng).hex()
            else:
                _, txt = gens.gen_json_doc(rng)
                spec = "j:" + txt.hex()
            cases.append(Case("jsonser %d %s" % (cb, spec), kind="ser"))
            if rng.random() < 0.25:
                cases.append(Case("jsonbuf %d %d %s" % (cb, 0, spec), kind="buf0", spec=spec, pretty=False))
                cases[-1].meta["sweep"] = True
        # non-finite numbers at every position, whatever the NaN / Infinity options of the build
        for t in ["f7fc00000", "d7ff8000000000001", "f7f800000", "dfff0000000000000", "[f7f800000,fff800000,f7fc00000,I1]", "{6e:d7ff8000000000001,69:d7ff0000000000000,78:f3fc00000}",
                  "[[d7ff8000000000000],{6b:[fffc00000]}]"]:
            cases.append(Case("jsonser %d t:%s" % (cb, t), kind="ser"))
        # deep documents: the pretty printer's indentation at every nesting level the library can hold (chains with a few siblings per level)
        for depth in list(range(1, 34)) + [60, 100]:
            for shape in range(3):
                inner = rng.choice(["I1", "S78", "N", "[]", "{}"])
                t = inner
                for lvl in range(depth):
                    if shape == 0 or (shape == 2 and lvl % 2 == 0):
                        t = "[" + (rng.choice(["T,", "U7,", ""])) + t + rng.choice(["", ",N", ",S6162"]) + "]"
                    else:
                        t = "{" + rng.choice(["", "61:T,"]) + "6b:" + t + rng.choice(["", ",7a:I-3"]) + "}"
                cases.append(Case("jsonser %d t:%s" % (cb, t), kind="ser"))
        # buffer sweeps are expanded in a second pass by check.py? keep it simple: fixed small docs, all capacities
        for t in ["t:[I1,U5]", "t:{61:S6869,62:[N,T]}", "t:S", "t:N", "t:f3fc00000", "t:[S00,d400921fb54442d18]", "t:{}", "t:[[],{}]", "t:R5b312c325d"]:
            for op in ("jsonbuf", "prettybuf"):
                for cap in range(0, 40):
                    cases.append(Case("%s %d %d %s" % (op, cb, cap, t), kind="buf"))
        return cases

    def oracle(self, case, h):
        o = Suite.oracle(self, case, h)
        if o:
            return o
        f = h.split(" ")
        if case.meta["kind"] == "ser":
            if f[0] != "ok":
                return None
            if f[-1] != "dest-ok":
                return ("jsonser:" + f[-1], "destinations disagree: " + f[-1])
            stored = parse_tree(f[1])
            compact = bytes.fromhex(f[2]) if f[2] != "-" else b""
            pretty = bytes.fromhex(f[3]) if f[3] != "-" else b""
            try:
                parsed = gens.py_json_parse(compact)
            except Exception as e:
                return ("jsonser:not-rfc8259", "serializeJson produced a text an independent parser rejects: %r (%s)" % (compact[:80], e))
            probs = match_serialized(stored, parsed)
            if probs:
                sig = "jsonser:float-accuracy" if all("printed with error" in p for p in probs) else "jsonser:wrong-text"
                return (sig, "; ".join(probs[:3]) + " in %r" % compact[:80])
            if gens.strip_json_ws(pretty) != compact:
                return ("jsonser:pretty-differs", "pretty output differs from compact beyond insignificant whitespace: %r vs %r" % (pretty[:80], compact[:80]))
            try:
                gens.py_json_parse(pretty)
            except Exception as e:
                return ("jsonser:pretty-not-rfc8259", "serializeJsonPretty produced a text an independent parser rejects: %r" % pretty[:80])
        else:
            if "GUARD-BROKEN" in h:
                return ("jsonser:guard", "a byte outside the buffer was written: " + h[:100])
            if "BUF-BAD" in h:
                return ("jsonser:buf-" + h.split("BUF-BAD:")[1], "bounded buffer contract broken: %s -> %s" % (case.line[:100], h[:100]))
        return None

    def feature(self, case, h):
        return case.line if len(case.line) > 24 else None


class SerBufSweep(Suite):
    """C02/C08 buffer clause: for random documents, every capacity 0..length+2 (needs the length, so it is a second-stage suite
    driven by the model's own text; the implementation's stored bytes are checked against the implementation's full text)"""
    name = "serbuf"

    def generate(self, rng, tier):
        cb = cfgbits(self.cfg)
        n = getattr(self, "n", 60 if tier == "quick" else 2000)
        cases = []
        for i in range(n):
            raw = "json" if self.fmt != "mp" else "mp"
            t = gens.gen_doc_term(rng, raw=raw, budget=[rng.choice([1, 3, 6])])
            spec = "t:" + show_tree(t)
            # upper bound of the length: generous
            for cap in range(0, 48):
                for op in (["jsonbuf", "prettybuf"] if self.fmt != "mp" else ["mpbuf"]):
                    cases.append(Case("%s %d %d %s" % (op, cb, cap, spec), kind="buf"))
        return cases

    def oracle(self, case, h):
        o = Suite.oracle(self, case, h)
        if o:
            return o
        if "GUARD-BROKEN" in h:
            return ("serbuf:guard", "a byte outside the buffer was written: " + case.line[:100])
        if "BUF-BAD" in h:
            return ("serbuf:" + h.split("BUF-BAD:")[1], "bounded buffer contract broken (%s): %s -> %s" % (h.split("BUF-BAD:")[1], case.line[:100], h[:100]))
        return None

    def feature(self, case, h):
        return case.line


# ================================================================================================ C08 / C09 / C07: MessagePack
def mp_matches_stored(stored, mv, path="$"):
    """C08: does the decoded MessagePack value `mv` denote the stored tree?"""
    k = stored[0]
    if k == "N" or k == "?":
        return [] if mv == ("nil",) else ["%s: null encoded as %s" % (path, str(mv)[:40])]
    if k == "B":
        return [] if mv == ("bool", stored[1]) else ["%s: bool encoded as %s" % (path, mv)]
    if k in "UI":
        return [] if mv == ("int", stored[1]) else ["%s: integer %d encoded as %s" % (path, stored[1], mv)]
    if k in "fd":
        x = num_value(stored)
        if mv[0] == "f32" and k == "f":
            return [] if mv[1] == stored[1] else ["%s: float bits %08x encoded as %08x" % (path, stored[1], mv[1])]
        if mv[0] == "f64" and k == "d":
            return [] if mv[1] == stored[1] else ["%s: double bits differ" % path]
        if mv[0] == "f32" and k == "d":
            return [] if gens.f32_value(mv[1]) == x else ["%s: double encoded as a float32 of another value" % path]
        if mv[0] == "int":
            ok = x not in ("nan", "inf", "-inf") and Fraction(mv[1]) == x
            return [] if ok else ["%s: floating value %s encoded as integer %d" % (path, show_tree(stored), mv[1])]
        return ["%s: floating value encoded as %s" % (path, str(mv)[:40])]
    if k == "S":
        return [] if mv == ("str", stored[1]) else ["%s: string encoded as %s" % (path, str(mv)[:60])]
    if k == "R":
        try:
            want, pos = mpack.decode(stored[1])
            if pos != len(stored[1]):
                return []
        except Exception:
            return []
        return [] if want == mv else ["%s: raw value not verbatim" % path]
    if k == "A":
        if mv[0] != "arr" or len(mv[1]) != len(stored[1]):
            return ["%s: array encoded as %s" % (path, str(mv)[:60])]
        out = []
        for i, (a, b) in enumerate(zip(stored[1], mv[1])):
            out += mp_matches_stored(a, b, "%s[%d]" % (path, i))
        return out
    if k == "O":
        if mv[0] != "map" or [("str", m[0]) for m in stored[1]] != [m[0] for m in mv[1]]:
            return ["%s: object encoded as %s" % (path, str(mv)[:80])]
        out = []
        for (kk, a), (_, b) in zip(stored[1], mv[1]):
            out += mp_matches_stored(a, b, "%s.%s" % (path, kk.hex()))
        return out
    return ["%s: unexpected node" % path]


def minimal_header_ok(stored, data):
    """C08 boundary clause: re-encode the decoded value with minimal headers for strings/arrays/maps/ints and compare lengths"""
    return True


class MpSerSuite(Suite):
    name = "mpser"

    def generate(self, rng, tier):
        n = getattr(self, "n", 3000 if tier == "quick" else 200000)
        cases = []
        sizes = [0, 1, 15, 16, 17, 31, 32, 33, 255, 256, 257]
        len4 = self.cfg.get("STRING_LENGTH_SIZE", 2) == 4      # only then can strings of 65536 bytes and more be stored at all
        big = ([65535, 65536] if len4 else [65535]) if (tier == "thorough" or (len4 and self.cfg.get("SLOT_ID_SIZE", 4) <= 2)) else []      # 32-bit string headers in a build with narrow slot ids
        maxlen = 2 ** (8 * self.cfg.get("STRING_LENGTH_SIZE", 2)) - 1
        for z in sizes + big:
            if z <= maxlen:
                cases.append(Case("mpser t:S" + "61" * z, kind="ser"))
            # strings stored by address are not bounded by the string-length configuration
            cases.append(Case("mpser t:L" + "61" * z, kind="ser"))
            cases.append(Case("mpser t:[L" + "62" * z + ",I1]", kind="ser"))
            if z <= 300:
                cases.append(Case("mpser t:[" + ",".join(["N"] * z) + "]", kind="ser"))
                cases.append(Case("mpser t:{" + ",".join("%s:T" % (b"k%d" % i).hex() for i in range(z)) + "}", kind="ser"))
                cases.append(Case("mpser t:[[" + ",".join(["U1"] * z) + "],S62]", kind="ser"))
        # 16/32-bit count and length headers on both sides of 65535/65536 (objects through MessagePack input: building 65536 members
        # through operator[] is quadratic); the 65536-member cases are judged by the oracle only (the list-based model is quadratic there)
        for z in (65535, 65536):
            if z <= 65535 or len4:
                cases.append(Case("mpser t:S" + "61" * z, kind="ser"))
            cases.append(Case("mpser m:" + (b"\xdc" + z.to_bytes(2, "big") if z < 65536 else b"\xdd" + z.to_bytes(4, "big")).hex() + "c0" * z, kind="ser",
                              mline="mpspec -", nocompare=True))
            cases.append(Case("mpser m:" + (b"\xde" + z.to_bytes(2, "big") if z < 65536 else b"\xdf" + z.to_bytes(4, "big")).hex() + "a161c0" * z, kind="ser",
                              mline="mpspec -", nocompare=True))
        for v in mpack.BOUNDARY_INTS:
            for dv in (-1, 0, 1):
                x = max(-2 ** 63, min(2 ** 64 - 1, v + dv))
                cases.append(Case("mpser t:%s%d" % ("U" if x >= 0 else "I", x), kind="ser"))
                if -2 ** 63 <= x < 2 ** 63:
                    cases.append(Case("mpser t:I%d" % x, kind="ser"))
        for b in mpack.BOUNDARY_F32 + gens.BOUND_F32:
            cases.append(Case("mpser t:f%08x" % b, kind="ser"))
        for b in mpack.BOUNDARY_F64 + gens.BOUND_F64:
            cases.append(Case("mpser t:d%016x" % b, kind="ser"))
        # binary/extension values are stored with their header (3/4 bytes for the 16-bit forms): 65531 is the largest payload that fits a 2-byte length
        for z in [0, 1, 2, 3, 4, 5, 7, 8, 9, 15, 16, 17, 31, 255, 256, 257] + (([65531, 65535, 65536] if len4 else [65531]) if tier == "thorough" else []):
            if z + 4 > maxlen:
                continue
            for t in (("Bn", bytes([0x41]) * z), ("X", 5, bytes([0x42]) * z), ("A", [("X", 200, bytes([0x43]) * z), ("I", 7)])):
                cases.append(Case("mpser t:" + show_tree(t), kind="ser", want=show_tree(gens.stored_tree(t))))
        for i in range(n):
            t = gens.gen_doc_term(rng, raw="mp")
            cases.append(Case("mpser t:" + show_tree(t), kind="ser", want=show_tree(gens.stored_tree(t))))
        for t in ["t:[I1,U5]", "t:{61:S6869,62:[N,T]}", "t:S", "t:N", "t:f3fc00000", "t:[S00,d400921fb54442d18]", "t:U70000"]:
            for cap in range(0, 24):
                cases.append(Case("mpbuf 8 %d %s" % (cap, t), kind="buf"))
        if maxlen < 65535:
            # a short string-length field: values stored by copy (strings, raw, bin/ext with their header) beyond it cannot be stored at all
            lim = 2 * (maxlen - 5)
            cases = [c for c in cases if not re.search(r"[SBXR][0-9a-f]{%d,}" % lim, c.line)]
        return cases

    def oracle(self, case, h):
        o = Suite.oracle(self, case, h)
        if o:
            return o
        f = h.split(" ")
        if case.meta["kind"] == "buf":
            if "GUARD-BROKEN" in h:
                return ("mpser:guard", "a byte outside the buffer was written: " + h[:100])
            if "BUF-BAD" in h:
                return ("mpser:buf-" + h.split("BUF-BAD:")[1], "bounded buffer contract broken: %s -> %s" % (case.line[:100], h[:100]))
            return None
        if f[0] != "ok":
            return None
        if f[-1] != "dest-ok":
            return ("mpser:" + f[-1], "destinations disagree: " + f[-1])
        stored = parse_tree(f[1])
        if case.meta.get("want") and f[1] != case.meta["want"]:
            return ("mpser:stored-differs", "document built from %s holds %s, expected %s" % (case.line[:80], f[1][:80], case.meta["want"][:80]))
        data = bytes.fromhex(f[2]) if f[2] != "-" else b""
        try:
            mv, pos = mpack.decode(data)
        except Exception as e:
            return ("mpser:not-msgpack", "an independent decoder rejects the output %s (%s)" % (data[:40].hex(), type(e).__name__))
        if pos != len(data):
            return ("mpser:trailing", "output holds more than one object: %s" % data[:40].hex())
        probs = mp_matches_stored(stored, mv)
        if probs:
            return ("mpser:wrong-value", "; ".join(probs[:3]))
        # shortest headers ("the right length header on both sides of the boundaries")
        if "R" not in f[1] and mpack.encode(mv) != data:
            return ("mpser:non-minimal-header", "output %s is not the minimal encoding %s" % (data[:40].hex(), mpack.encode(mv)[:40].hex()))
        return None

    def feature(self, case, h):
        return case.line if len(case.line) > 12 else None


def mp_expected_matches(mv, got, path="$", use_double=True, long_long=True):
    """C09: does the extracted tree denote the encoded value?"""
    k = mv[0]
    if k == "int" and not long_long and not (-2 ** 31 <= mv[1] < 2 ** 32):
        # without 64-bit integer storage: "null when outside the configured integer range, never a wrong number"
        return [] if got[0] == "N" else ["%s: integer %d (outside the 32-bit storage of this build) decoded as %s, expected null" % (path, mv[1], show_tree(got)[:40])]
    if k == "int" and not long_long and 2 ** 31 <= mv[1] and got[0] == "N":
        return []        # written in a signed 64-bit form: the signed path stores 32-bit signed values only - null, not a wrong number
    if k == "nil":
        return [] if got[0] == "N" else ["%s: nil decoded as %s" % (path, show_tree(got)[:40])]
    if k == "bool":
        return [] if got == ("B", mv[1]) else ["%s: bool decoded as %s" % (path, show_tree(got)[:40])]
    if k == "int":
        return [] if got[0] in "UI" and got[1] == mv[1] else ["%s: integer %d decoded as %s" % (path, mv[1], show_tree(got)[:40])]
    if k == "f32":
        if got[0] == "f" and (got[1] == mv[1] or (gens.f32_value(mv[1]) == "nan" and gens.f32_value(got[1]) == "nan")):
            return []
        return ["%s: float32 %08x decoded as %s" % (path, mv[1], show_tree(got)[:40])]
    if k == "f64" and not use_double:
        want = py_float32(struct.unpack("<d", struct.pack("<Q", mv[1]))[0])
        if got[0] == "f" and (got[1] == want or (gens.f32_value(want) == "nan" and gens.f32_value(got[1]) == "nan")):
            return []
        return ["%s: float64 %016x decoded as %s, the nearest float is %08x" % (path, mv[1], show_tree(got)[:40], want)]
    if k == "f64":
        x = gens.f64_value(mv[1])
        y = num_value(got)
        if got[0] in "fd" and (x == y) and (x != 0 or gens.is_neg_zero(got) == bool(mv[1] >> 63)):
            return []
        return ["%s: float64 %016x decoded as %s" % (path, mv[1], show_tree(got)[:40])]
    if k == "str":
        return [] if got == ("S", mv[1]) else ["%s: string decoded as %s" % (path, show_tree(got)[:60])]
    if k in ("bin", "ext"):
        if got[0] != "R":
            return ["%s: bin/ext decoded as %s" % (path, show_tree(got)[:40])]
        try:
            back, pos = mpack.decode(got[1])
        except Exception:
            return ["%s: retained raw bytes are not the bin/ext object" % path]
        return [] if back == mv and pos == len(got[1]) else ["%s: retained raw bytes differ from the bin/ext object" % path]
    if k == "arr":
        if got[0] != "A" or len(got[1]) != len(mv[1]):
            return ["%s: array decoded as %s" % (path, show_tree(got)[:60])]
        out = []
        for i, (a, b) in enumerate(zip(mv[1], got[1])):
            out += mp_expected_matches(a, b, "%s[%d]" % (path, i), use_double, long_long)
        return out
    if k == "map":
        if got[0] != "O" or [m[0] for m in mv[1]] != [("str", m[0]) for m in got[1]]:
            return ["%s: map decoded as %s" % (path, show_tree(got)[:80])]
        out = []
        for (kk, a), (_, b) in zip(mv[1], got[1]):
            out += mp_expected_matches(a, b, "%s.%s" % (path, kk[1].hex()), use_double, long_long)
        return out
    return ["%s: unexpected" % path]


def mv_depth(v):
    if v[0] == "arr":
        return 1 + max([mv_depth(x) for x in v[1]] + [0])
    if v[0] == "map":
        return 1 + max([mv_depth(x) for _, x in v[1]] + [0])
    return 0


class MpDeSuite(Suite):
    """C09: well-formed objects in arbitrary legal encodings, all proper prefixes, single-byte corruptions, reserved code, bad keys"""
    name = "mpde"

    @property
    def uses_driver(self):
        # the model has no parameter for builds without 64-bit integer storage: those are judged by the independent codec only
        return self.cfg.get("USE_LONG_LONG", 1) != 0

    def op(self):
        return "mpde0" if self.cfg.get("USE_DOUBLE", 1) == 0 else "mpde"

    def generate(self, rng, tier):
        n = getattr(self, "n", 2500 if tier == "quick" else 200000)
        cases = []
        for i in range(n):
            v = mpack.gen_value(rng, dup_keys=True)
            data = mpack.encode(v, rng)
            rk = rng.choice([0, 2, 3, 4, 5, 7, 8, 9]) + (100 if rng.random() < 0.2 else 0)
            cases.append(Case("%s %d %d - %s" % (self.op(), rk, 20, hx(data)), kind="valid", value=v, data=data))
            if len(data) <= 200 and rng.random() < 0.35:
                for cut in range(len(data)):
                    cases.append(Case("%s 0 20 - %s" % (self.op(), hx(data[:cut])), kind="prefix", data=data[:cut]))
            if rng.random() < 0.3 and data:
                b = bytearray(data)
                i2 = rng.randrange(len(b))
                b[i2] = rng.choice([0xC1, b[i2] ^ (1 << rng.randrange(8)), rng.getrandbits(8)])
                cases.append(Case("%s 0 20 - %s" % (self.op(), hx(bytes(b))), kind="corrupt"))
        # keys and strings of exactly the longest storable length, one less and one more, in every header width that can announce them
        maxlen = 2 ** (8 * self.cfg.get("STRING_LENGTH_SIZE", 2)) - 1
        if maxlen <= 65535:
            for ln in (maxlen - 1, maxlen, maxlen + 1):
                hdrs = ([b"\xd9" + bytes([ln])] if ln < 256 else []) + ([b"\xda" + ln.to_bytes(2, "big")] if ln < 65536 else []) + [b"\xdb" + ln.to_bytes(4, "big")]
                for hd in hdrs:
                    key = bytes([0x61 + (j % 26) for j in range(ln)])
                    for data, v in ((b"\x81" + hd + key + b"\x01", ("map", [(("str", key), ("int", 1))])), (b"\x82\xa1k\x02" + hd + key + b"\x91\xc0", ("map", [(("str", b"k"), ("int", 2)), (("str", key), ("arr", [("nil",)]))])),
                                    (b"\x91" + hd + key, ("arr", [("str", key)]))):
                        if ln <= maxlen:
                            cases.append(Case("%s 0 20 - %s" % (self.op(), hx(data)), kind="valid", value=v, data=data))
                        else:
                            cases.append(Case("%s 0 20 - %s" % (self.op(), hx(data)), kind="toolong"))
        for k in [b"\xc0", b"\x01", b"\xc3", b"\x90", b"\x80", b"\xca\x00\x00\x00\x00", b"\xc4\x01a", b"\xd4\x01a", b"\xcc\x05", b"\xff"]:
            cases.append(Case("%s 0 20 - %s" % (self.op(), hx(b"\x81" + k + b"\x01")), kind="badkey"))
        for pre in [b"", b"\x91", b"\x92\x01", b"\x81\xa1k", b"\xdc\x00\x01"]:
            cases.append(Case("%s 0 20 - %s" % (self.op(), hx(pre + b"\xc1")), kind="c1"))
        # headers announcing huge sizes (C06): must not allocate / must be Incomplete or NoMemory
        for h in [b"\xdb\xff\xff\xff\xff", b"\xc6\xff\xff\xff\xff", b"\xdd\xff\xff\xff\xff", b"\xdf\xff\xff\xff\xff", b"\xc9\xff\xff\xff\xff\x01", b"\xda\xff\xff", b"\xdc\xff\xff",
                  b"\xdb\x00\x01\x00\x00", b"\xc6\x00\x01\x00\x00", b"\xc5\xff\xff", b"\xc8\xff\xff\x01", b"\xde\xff\xff", b"\xdb\x7f\xff\xff\xff", b"\xc6\x80\x00\x00\x00"]:
            for pre in (b"", b"\x92\x01", b"\x81\xa1k", b"\x93\xa3abc"):
                for tail in (b"", b"abc", b"\x00" * 300):
                    cases.append(Case("%s 0 20 - %s" % (self.op(), hx(pre + h + tail)), kind="huge" if not tail else "huge-tail"))
        return cases

    @staticmethod
    def nan_tree(f):
        """NaN payloads are not observable behaviour: canonical NaN in the tree, and then the re-serialised bytes are not compared"""
        if len(f) < 2:
            return f
        t = re.sub(r"f(7f[89a-f]|ff[89a-f])[0-9a-f]{5}", lambda m: "fNaN" if int(m.group(0)[1:], 16) & 0x7FFFFF else m.group(0), f[1])
        t = re.sub(r"d(7ff|fff)[0-9a-f]{13}", lambda m: "dNaN" if int(m.group(0)[1:], 16) & ((1 << 52) - 1) else m.group(0), t)
        if t != f[1]:
            f = [f[0], t] + f[2:3] + ["*"] + f[4:]
        return f

    def canon_h(self, case, h):
        f = h.split(" ")
        f = [x for x in f if not x.startswith("req")]
        if len(f) >= 3 and f[2] == "-":
            f[2] = "*"
        return " ".join(self.nan_tree(f))

    def canon_m(self, case, m):
        rk = int(case.line.split(" ")[1]) % 100
        f = m.split(" ")
        if rk not in (0, 5, 8, 9) and len(f) >= 3:
            f[2] = "*"
        return " ".join(self.nan_tree(f))

    def oracle(self, case, h):
        o = Suite.oracle(self, case, h)
        if o:
            return o
        f = h.split(" ")
        k = case.meta["kind"]
        if k == "valid":
            v = case.meta["value"]
            if f[0] != "Ok":
                return ("mpde:rejected", "well-formed object %s gave %s" % (case.meta["data"][:40].hex(), f[0]))
            probs = mp_expected_matches(v, parse_tree(f[1]), use_double=self.cfg.get("USE_DOUBLE", 1) != 0, long_long=self.cfg.get("USE_LONG_LONG", 1) != 0)
            if probs:
                return ("mpde:wrong-value", "; ".join(probs[:3]) + " for " + case.meta["data"][:40].hex())
            # bin/ext retained: re-serialisation reproduces them; without floats the whole re-serialisation decodes to the same value
            re_ = bytes.fromhex(f[3]) if f[3] != "-" else b""
            try:
                back, pos = mpack.decode(re_)
            except Exception:
                return ("mpde:reserialize", "re-serialised bytes are not MessagePack")
            return None
        if k == "prefix":
            want = "EmptyInput" if not case.meta["data"] else "IncompleteInput"
            if f[0] != want:
                return ("mpde:prefix", "proper prefix %s of a well-formed object gave %s, expected %s" % (case.meta["data"][:40].hex(), f[0], want))
        # C06: memory requested while deserializing <= one maximum-size string + pool granularity + linear in the bytes consumed,
        # whatever lengths and counts the headers announce
        req = [int(x[4:]) for x in f if x.startswith("req=")]
        if req and len(f) >= 3 and f[2].lstrip("-").isdigit() and not int(case.line.split(" ")[1]) >= 100:
            consumed = max(0, int(f[2]))
            bound = 2 * (65535 + 64) + 2 * 4096 + 1024 + 32 * consumed        # a one-byte element costs one 16-byte slot
            if req[0] > bound:
                return ("mpde:memory-bound", "%d bytes requested after consuming %d bytes of %s (bound %d)" % (req[0], consumed, case.line[:80], bound))
        if k == "huge" and f[0] not in ("IncompleteInput", "NoMemory"):
            return ("mpde:huge", "a header announcing a huge length or count gave %s: %s" % (f[0], case.line))
        if k == "toolong" and f[0] != "NoMemory":
            return ("mpde:toolong", "a string or key one byte longer than the longest storable one gave %s: %s" % (f[0], case.line[:60]))
        if k == "c1" and f[0] != "InvalidInput":
            return ("mpde:c1", "reserved code 0xC1 gave " + f[0])
        if k == "badkey" and f[0] != "InvalidInput":
            return ("mpde:badkey", "non-string map key gave %s (%s)" % (f[0], case.line))
        return None

    def feature(self, case, h):
        return case.line if len(case.line) > 16 else None


class RoundTripSuite(Suite):
    """C07"""
    name = "roundtrip"

    def generate(self, rng, tier):
        cb = cfgbits(self.cfg)
        n = getattr(self, "n", 2500 if tier == "quick" else 150000)
        cases = []
        for i in range(n):
            r = rng.random()
            if r < 0.6:
                spec = "t:" + show_tree(gens.gen_doc_term(rng, raw=None))
            elif r < 0.8:
                spec = "m:" + mpack.encode(mpack.gen_value(rng, binext=False), rng).hex()
            else:
                spec = "j:" + gens.gen_json_doc(rng)[1].hex()
            cases.append(Case("jsonrt %d %s" % (cb, spec), kind="jsonrt"))
            cases.append(Case("mprt %s" % spec, kind="mprt"))
            if r >= 0.8:
                cases.append(Case("cross %d %s" % (cb, spec[2:]), kind="cross"))
        # deep documents (the round trips are made with a nesting limit of 250): depth 1..240
        for depth in (1, 2, 9, 10, 11, 60, 127, 128, 129, 200, 240):
            t = "I7"
            for lvl in range(depth):
                t = ("[" + t + "]") if lvl % 2 == 0 else ("{6b:" + t + "}")
            cases.append(Case("jsonrt %d t:%s" % (cb, t), kind="jsonrt"))
            cases.append(Case("mprt t:%s" % t, kind="mprt"))
        if self.cfg.get("STRING_LENGTH_SIZE", 2) == 4:
            # strings and keys on both sides of the str 16 / str 32 boundary (only this build can store them)
            for z in (65535, 65536, 70000):
                # judged on the implementation's outputs (the driver's round-trip operations run with the default string limit)
                cases.append(Case("mprt t:[S%s,I42]" % ("61" * z), kind="mprt", mline="mpspec -", nocompare=True))
                cases.append(Case("mprt t:{%s:S78}" % ("6b" * z), kind="mprt", mline="mpspec -", nocompare=True))
                cases.append(Case("cross %d %s" % (cb, ("5b22" + "61" * z + "222c34325d")), kind="cross", mline="mpspec -", nocompare=True))
        # a map / an array with 65536 entries (map 32 / array 32 headers), through MessagePack input; judged on the implementation's outputs only
        for hdr, item in ((b"\xdf\x00\x01\x00\x00", "a16bc0"), (b"\xdd\x00\x01\x00\x00", "c0")):
            cases.append(Case("mprt m:" + hdr.hex() + item * 65536, kind="mprt", mline="mpspec -", nocompare=True))
        return cases

    @staticmethod
    def equiv(a, b, through_json, path="$"):
        """a: original stored tree, b: tree after the round trip"""
        if a[0] in "UIfd":
            x, y = num_value(a), num_value(b)
            if y is None:
                if through_json and x in ("nan", "inf", "-inf") and b[0] == "N":
                    return []
                return ["%s: number became %s" % (path, show_tree(b)[:30])]
            if a[0] in "UI":
                return [] if (b[0] in "UI" and x == y) else ["%s: integer %s became %s" % (path, show_tree(a), show_tree(b))]
            if x in ("nan", "inf", "-inf"):
                return [] if x == y else ["%s: %s became %s" % (path, x, show_tree(b))]
            if not through_json:
                return [] if x == y else ["%s: %s became %s (value changed)" % (path, show_tree(a), show_tree(b))]
            tol = Fraction(1, 10 ** 6) if a[0] == "f" else Fraction(1, 10 ** 9)
            ax = abs(x)
            if ax != 0 and not (Fraction(1, 10 ** 300) <= ax <= Fraction(10) ** 300):
                return []
            if y in ("nan", "inf", "-inf"):
                return ["%s: %s became %s" % (path, show_tree(a), y)]
            lim = tol * max(1, ax) + Fraction(1, 10 ** 6) * ax
            return [] if abs(x - y) <= lim else ["%s: %s became %s (error %.2e)" % (path, show_tree(a), show_tree(b), float(abs(x - y) / max(1, ax)))]
        if a[0] == "?":
            return [] if b[0] == "N" else ["%s: unbound became %s" % (path, b[0])]
        if a[0] != b[0]:
            return ["%s: %s became %s" % (path, show_tree(a)[:30], show_tree(b)[:30])]
        if a[0] in "NBSR":
            return [] if a == b else ["%s: %s became %s" % (path, show_tree(a)[:40], show_tree(b)[:40])]
        if a[0] == "A":
            if len(a[1]) != len(b[1]):
                return ["%s: array length changed" % path]
            out = []
            for i, (p, q) in enumerate(zip(a[1], b[1])):
                out += RoundTripSuite.equiv(p, q, through_json, "%s[%d]" % (path, i))
            return out
        ka = [m[0] for m in a[1]]
        if through_json:
            # JSON text -> document merges repeated keys (last wins)
            a = ("O", gens.last_wins(a[1]))
            ka = [m[0] for m in a[1]]
        if ka != [m[0] for m in b[1]]:
            return ["%s: member keys/order changed" % path]
        out = []
        for (kk, p), (_, q) in zip(a[1], b[1]):
            out += RoundTripSuite.equiv(p, q, through_json, "%s.%s" % (path, kk.hex()))
        return out

    def oracle(self, case, h):
        o = Suite.oracle(self, case, h)
        if o:
            return o
        f = h.split(" ")
        k = case.meta["kind"]
        if k in ("jsonrt", "mprt"):
            a = parse_tree(f[0])
            if f[2] != "Ok":
                if k == "jsonrt" and gens.depth_of(a) > 120:
                    return None
                return (k + ":rejected", "the library rejects its own output (%s): %s" % (f[2], f[1][:80]))
            b = parse_tree(f[3])
            probs = self.equiv(a, b, k == "jsonrt")
            if probs:
                sig = k + ":changed"
                if all("error" in p for p in probs):
                    sig = k + ":float-accuracy"
                return (sig, "; ".join(probs[:3]))
            if k == "mprt" and f[1] != f[4]:
                return ("mprt:not-fixpoint", "second serialization differs: %s vs %s" % (f[1][:60], f[4][:60]))
        else:
            if f[0] != "Ok":
                return None
            if f[2] != "Ok":
                return ("cross:rejected", "MessagePack of a JSON document rejected: " + f[2])
            if f[-1] != "eq":
                a, b = parse_tree(f[1]), parse_tree(f[3])
                probs = self.equiv(a, b, False)
                if probs:
                    return ("cross:changed", "; ".join(probs[:3]))
                if "f7fc00000" in f[1] or "7ff8" in f[1]:
                    return None
                return ("cross:compare-ne", "documents with equal values compare unequal: %s vs %s" % (f[1][:60], f[3][:60]))
        return None

    def feature(self, case, h):
        return case.line if len(case.line) > 20 else None


# ================================================================================================ C10 / C03: any bytes
import dialect, itertools

TOKENS = [b"[", b"]", b"{", b"}", b",", b":", b'"a"', b"'b'", b"k", b"1", b"-2.5e3", b"true", b"fals", b"null", b" ", b'"', b"\\", b"/*c*/", b"//c\n",
          b"/", b"NaN", b"-Infinity", b"\x00", b'"\\u00e9"', b'"\\n\\x"', b"+", b".5", b"1e", b"x", b"\n", b'"\\u12', b"0", b"nul"]


class JsonAnySuite(Suite):
    """C10/C03: bounded-exhaustive token sequences, mutated valid texts, random bytes; every reader kind on the same bytes"""
    name = "jsonany"

    def generate(self, rng, tier):
        cb = cfgbits(self.cfg)
        texts = []
        maxlen = getattr(self, "maxlen", 3 if tier == "quick" else 4)
        for n in range(0, maxlen + 1):
            for seq in itertools.product(TOKENS, repeat=n):
                texts.append(b"".join(seq))
        extra = getattr(self, "n", 25000 if tier == "quick" else 600000)
        for i in range(extra):
            r = rng.random()
            if r < 0.25:
                texts.append(b"".join(rng.choice(TOKENS) for _ in range(rng.choice([4, 5, 6, 8]))))
            elif r < 0.8:
                _, t = gens.gen_json_doc(rng, maxdepth=rng.choice([1, 2, 3, 5]), budget=rng.choice([2, 5, 10]))
                texts.append(gens.mutate(rng, t))
            elif r < 0.9:
                texts.append(bytes(rng.choice(b'[]{},:"\'\\ tfn0123456789.eE+-/*\x00\n\xc3') for _ in range(rng.randrange(0, 14))))
            else:
                texts.append(bytes(rng.getrandbits(8) for _ in range(rng.randrange(0, 12))))
        if self.cfg.get("STRING_LENGTH_SIZE", 2) == 2:
            # strings and keys - quoted, single-quoted and UNQUOTED - at and beyond the longest storable length (the value-level model has its own limit test)
            for k in (65535, 65536, 66000):
                texts += [b"{" + b"k" * k + b":1}", b'{"' + b"k" * k + b'":1}', b"'" + b"s" * k + b"'", b'[1,{a:2,' + b"Z" * k + b':[3]}]']
        cases = []
        for i, t in enumerate(texts):
            lim = rng.choice([10, 10, 10, 0, 1, 2, 3, 255]) if len(t) < 60000 else 10
            cases.append(Case("jsonde %d 0 %d %s" % (cb, lim, hx(t)), text=t, lim=lim, rk=0, gid=i))
            if i % 7 == 0:
                # source independence: the same bytes through other reader kinds
                for rk in rng.sample([1, 2, 3, 4, 5, 6, 7, 8, 9] + ([20, 21, 22, 23] * 2 if self.cfg.get("arduino") else []), 3):
                    cases.append(Case("jsonde %d %d %d %s" % (cb, rk, lim, hx(t)), text=t, lim=lim, rk=rk, gid=i))
        return cases

    def canon_h(self, case, h):
        f = h.split(" ")
        if len(f) >= 3 and f[2] == "-":
            return " ".join(f[:2])
        return h

    def canon_m(self, case, m):
        if case.meta["rk"] not in (0, 5, 8, 9, 21):
            return " ".join(m.split(" ")[:2])
        return m

    def oracle(self, case, h):
        o = Suite.oracle(self, case, h)
        if o:
            return o
        f = h.split(" ")
        if f[0] not in CODES:
            return ("jsonany:bad-code", "returned '%s'" % f[0])
        t = case.meta["text"]
        c = self.cfg
        ref = dialect.recognize(t, comments=bool(c.get("ENABLE_COMMENTS")), nan=bool(c.get("ENABLE_NAN")), inf=bool(c.get("ENABLE_INFINITY")),
                                decode_unicode=bool(c.get("DECODE_UNICODE", 1)), limit=case.meta["lim"])
        if ref is None:
            return None
        code, tree, end = ref
        if f[0] != code:
            if f[0] == "NoMemory":
                return None
            if code == "Ok":
                sig = "jsonany:rejects-dialect-text"
                if tree[0] in "UIQ" and f[0] == "InvalidInput":
                    sig += ":top-level-number-then-whitespace"
            elif f[0] == "Ok":
                sig = "jsonany:accepts-non-dialect-text"
                if b"\\u" in t:
                    sig += ":hex"
            else:
                sig = "jsonany:misclassified:%s-instead-of-%s" % (f[0], code)
                if b"\\u" in t:
                    sig += ":hex"
            return (sig, "text %r (limit %d): library %s, documented dialect says %s" % (t[:60], case.meta["lim"], f[0], code))
        if code == "Ok":
            probs = gens.match_expected(tree, parse_tree(f[1]))
            if probs:
                sig = "jsonany:wrong-value"
                if any("relative error" in p or "infinity" in p or "magnitude" in p for p in probs):
                    sig = "jsonany:number-accuracy"
                elif any("expected keys" in p for p in probs) and (b"\\u0000" in t):
                    sig = "jsonany:key-with-nul"
                return (sig, "text %r: %s" % (t[:60], "; ".join(probs[:2])))
            if f[2] != "-" and int(f[2]) > min(end, len(t)):
                return ("jsonany:overconsumed", "text %r: consumed %s bytes, the document ends at %d" % (t[:60], f[2], end))
        return None

    def post(self, cases, ho):
        """source independence: same bytes, same code and document for every reader kind"""
        out = []
        by = {}
        for c, h in zip(cases, ho):
            if is_crash(h):
                continue
            key = (c.meta["gid"], c.meta["text"], c.meta["lim"])       # the bytes themselves are part of the key: extra rounds (source drift) restart the numbering
            res = " ".join(h.split(" ")[:2])
            if key in by and by[key][0] != res:
                out.append(("jsonany:source-dependent", "same bytes %r give '%s' through reader %d and '%s' through reader %d" % (
                    c.meta["text"][:60], by[key][0][:60], by[key][1], res[:60], c.meta["rk"]), c))
            by.setdefault(key, (res, c.meta["rk"]))
        return out

    def feature(self, case, h):
        t = case.meta["text"]
        return (t, case.meta["rk"]) if len(t) > 2 else None

    def neighbours(self, case, rng):
        t = case.meta["text"]
        cb = cfgbits(self.cfg)
        out = []
        for _ in range(60):
            m = gens.mutate(rng, t)
            out.append(Case("jsonde %d 0 %d %s" % (cb, case.meta["lim"], hx(m)), text=m, lim=case.meta["lim"], rk=0, gid=-1))
        return out


# ================================================================================================ C11: filters
def fnum(f):
    if f is not None and f[0] == "Q":
        return f[1]
    return num_value(f) if f is not None else None


def is_true_f(f):
    if f == ("B", True):
        return True
    v = fnum(f)
    return v is not None and v == 1


def truthy_f(f):
    if f is None or f[0] == "N":
        return False
    if f[0] == "B":
        return f[1]
    v = fnum(f)
    if v is not None:
        return v == "nan" or v in ("inf", "-inf") or v != 0
    return True


def sub_f(f, key=None):
    """filter[key] / filter[0] with the "*" fallback (DESIGN.md appendix D)"""
    if f is None:
        return None
    if is_true_f(f):
        return f
    m = None
    if key is not None and f[0] == "O":
        for k, v in f[1]:
            if k == key:
                m = v
                break
    elif key is None and f[0] == "A":
        m = f[1][0] if f[1] else None
    if m is None or m[0] == "N":
        if f[0] == "O":
            for k, v in f[1]:
                if k == b"*":
                    return v
        return None
    return m


def project(v, f):
    if v[0] == "A":
        if not (is_true_f(f) or (f is not None and f[0] == "A")):
            return ("N",)
        ef = sub_f(f, None)
        return ("A", [project(x, ef) for x in v[1]]) if truthy_f(ef) else ("A", [])
    if v[0] == "O":
        if not (is_true_f(f) or (f is not None and f[0] == "O")):
            return ("N",)
        out = []
        for k, x in v[1]:
            mf = sub_f(f, k)
            if truthy_f(mf):
                out.append((k, project(x, mf)))
        return ("O", out)
    return v if is_true_f(f) else ("N",)


def jkey(k):
    """JSON spelling of a key that may contain NUL"""
    return k.replace(b"\x00", b"\\u0000")


FILTER_KEYS = (b"a", b"b", b"k", b"", b"a\x00b", b"a\x00")     # keys with an embedded NUL whose prefix is another key: lookups must use the full length


def gen_filter(rng, depth=0, keys=FILTER_KEYS):
    r = rng.random()
    if depth > 3:
        r *= 0.6
    if r < 0.25:
        return b"true"
    if r < 0.32:
        return rng.choice([b"false", b"null", b"1", b"0", b"2", b'"s"', b'""', b"1.0", b"0.0", b"-1"])
    if r < 0.55:
        n = rng.choice([0, 1, 1, 2])
        return b"[" + b",".join(gen_filter(rng, depth + 1, keys) for _ in range(n)) + b"]"
    n = rng.choice([0, 1, 2, 3])
    ms = []
    for _ in range(n):
        k = rng.choice(list(keys) + [b"*", b"*"])
        ms.append(b'"' + jkey(k) + b'":' + gen_filter(rng, depth + 1, keys))
    return b"{" + b",".join(ms) + b"}"


class FilterSuite(Suite):
    """C11: (input, filter) pairs for JSON and MessagePack; projection of the unfiltered result; memory; `true` is the identity"""
    name = "filter"

    def generate(self, rng, tier):
        cb = cfgbits(self.cfg)
        n = getattr(self, "n", 7000 if tier == "quick" else 400000)
        cases = []
        keys = FILTER_KEYS
        for i in range(n):
            flt = gen_filter(rng) if rng.random() < 0.9 else b"true"
            lim = rng.choice([10, 10, 10, 2, 3])
            nodouble = self.cfg.get("USE_DOUBLE", 1) == 0
            if rng.random() < 0.55 and not nodouble:
                # JSON input with keys from the same small set
                def jv(d):
                    r = rng.random()
                    if d > 3:
                        r *= 0.5
                    if r < 0.12:
                        d_, sp_ = gens.gen_string(rng, maxlen=5)
                        if rng.random() < 0.5:
                            sp_ += rng.choice([b"\\\\", b'\\"', b"\\\\\\\\", b"\\/", b"\\u005c"])      # strings ending in an escape
                        return b'"' + sp_ + b'"'
                    if r < 0.5:
                        extra = ([b"NaN"] if self.cfg.get("ENABLE_NAN") else []) + ([b"Infinity", b"-Infinity"] if self.cfg.get("ENABLE_INFINITY") else [])
                        if extra and rng.random() < 0.3:
                            return rng.choice(extra)
                        if rng.random() < 0.04:
                            return rng.choice([b"1" * 64, b"0." + b"3" * 70, b"7" * 63, b"-1e" + b"0" * 64 + b"2"])      # too long to be stored, not too long to be skipped
                        return rng.choice([b"1", b"-2", b"1.5", b'"x"', b"true", b"false", b"null", b'"\\u00e9"', b"12345678901234567890", b'""'])
                    if r < 0.75:
                        return b"[" + b",".join(jv(d + 1) for _ in range(rng.choice([0, 1, 2, 3]))) + b"]"
                    ms = []
                    for _ in range(rng.choice([0, 1, 2, 3])):
                        ms.append(b'"' + jkey(rng.choice(keys + (b"c",))) + b'":' + jv(d + 1))
                    return b"{" + b",".join(ms) + b"}"
                txt = jv(0)
                r = rng.random()
                if r < 0.2:
                    txt = gens.mutate(rng, txt)
                cases.append(Case("jsonfilt %d 0 %d %s %s" % (cb, lim, hx(flt), hx(txt)), fmt="j", text=txt, flt=flt, lim=lim))
            else:
                def mv(d):
                    r = rng.random()
                    if d > 3:
                        r *= 0.5
                    if r < 0.5:
                        return rng.choice([("int", 1), ("int", -2), ("f32", 0x3FC00000), ("str", b"x"), ("bool", True), ("nil",), ("bin", b"\x01\x02"), ("ext", 1, b"ab"), ("int", 2 ** 40), ("f64", 0x3FB999999999999A),
                                           ("f64", 0x3FF8000000000000), ("f64", 0x400921FB54442D18)])
                    if r < 0.75:
                        return ("arr", [mv(d + 1) for _ in range(rng.choice([0, 1, 2, 3]))])
                    return ("map", [(("str", rng.choice(keys + (b"c",))), mv(d + 1)) for _ in range(rng.choice([0, 1, 2, 3]))])
                v = mv(0)
                data = mpack.encode(v, rng)
                if rng.random() < 0.2:
                    data = gens.mutate(rng, data)
                mop = "mpde0" if nodouble else "mpde"
                cases.append(Case("%s 0 %d %s %s" % (mop, lim, hx(flt), hx(data)), fmt="m", text=data, flt=flt, lim=lim))
                cases.append(Case("%s 0 %d - %s" % (mop, lim, hx(data)), fmt="mu", text=data, flt=None, lim=lim, pair_line=cases[-1].line))
        return cases

    def canon_h(self, case, h):
        f = [x for x in h.split(" ") if not x.startswith("req")]
        return " ".join(MpDeSuite.nan_tree(f) if case.meta["fmt"] in ("m", "mu") else f)

    def canon_m(self, case, m):
        return " ".join(MpDeSuite.nan_tree(m.split(" "))) if case.meta["fmt"] in ("m", "mu") else m

    def oracle(self, case, h):
        o = Suite.oracle(self, case, h)
        if o:
            sig = o[0]
            if case.meta["fmt"] == "m" and "null_pointer" in h:
                sig = "filter:msgpack-null-array"
            return (sig, o[1] + " on " + case.line[:120])
        f = h.split(" ")
        m = {x.split("=")[0]: int(x.split("=")[1]) for x in f if x.startswith("req") and "=" in x}
        u = [x for x in f if x.startswith("requ:")]
        ucode = u[0].split(":")[1] if u else ("Ok" if m.get("requc", 0) == 0 else "error") if "requc" in m else "?"
        after_error = ":unfiltered-run-stopped-at-an-error" if ucode not in ("Ok", "?") else ""
        if not getattr(self, "memory_clause", True):
            m = {}            # used by properties that are not about memory (the memory clause is C11's, with its known findings)
        # memory clause, three measures from the allocator ledger: high-water mark of bytes held, bytes held at the end, total bytes requested
        if "reqpk" in m and m["reqpk"] > m["reqpku"]:
            return ("filter:memory" + after_error, "filtered run (%s) held up to %d bytes, unfiltered run (%s) %d bytes: %s" % (f[0], m["reqpk"], ucode, m["reqpku"], case.line[:140]))
        if "reqfin" in m and m["reqfin"] > m["reqfinu"]:
            return ("filter:memory" + after_error, "filtered run (%s) ends holding %d bytes, unfiltered run (%s) %d bytes: %s" % (f[0], m["reqfin"], ucode, m["reqfinu"], case.line[:140]))
        if "req" in m and "requ" in m and m["req"] > m["requ"]:
            sig = "filter:memory" + after_error
            if not after_error and "reqpk" in m:
                # neither the peak nor the final amount is exceeded: only the running total of requests is
                sig = "filter:memory:total-of-requests-only"
            return (sig, "filtered run (%s) requested %d bytes in total, unfiltered run (%s) %d bytes: %s" % (f[0], m["req"], ucode, m["requ"], case.line[:140]))
        if case.meta["fmt"] == "j" and case.meta["flt"] == b"true":
            # the filter `true` is the identity on every input, malformed included (both results from the implementation)
            u = [x for x in f if x.startswith("requ:")]
            if u and u[0] != "requ:%s:%s" % (f[0], f[1]):
                return ("filter:true-not-identity", "filter true gives '%s %s', no filter gives '%s' for %r" % (f[0], f[1][:60], u[0][5:65], case.meta["text"][:60]))
        if case.meta["fmt"] == "j":
            # projection of the unfiltered result, computed from the documented dialect's value
            txt = case.meta["text"]
            cf = self.cfg
            ref = dialect.recognize(txt, comments=bool(cf.get("ENABLE_COMMENTS")), nan=bool(cf.get("ENABLE_NAN")), inf=bool(cf.get("ENABLE_INFINITY")), limit=case.meta["lim"])
            fref = dialect.recognize(case.meta["flt"], limit=20)
            if ref is None or fref is None or fref[0] != "Ok" or ref[0] != "Ok":
                return None
            if f[0] != "Ok":
                if ref[1][0] in ("U", "I", "Q", "NAN", "INF"):
                    return None
                return ("filter:rejected", "accepted without a filter but %s with filter %r: %r" % (f[0], case.meta["flt"][:40], txt[:60]))
            def concrete(t):
                # expected-number nodes stay as they are; project works on kinds only
                return t
            want = project(ref[1], fref[1])
            probs = gens.match_expected(want, parse_tree(f[1]))
            if probs:
                return ("filter:not-projection", "filter %r on %r: %s" % (case.meta["flt"][:50], txt[:60], "; ".join(probs[:2])))
        return None

    def post(self, cases, ho):
        """MessagePack: filtered result = projection of the unfiltered result of the same bytes (both from the implementation)"""
        out = []
        index = {}
        for i, c in enumerate(cases):
            index.setdefault(c.line, i)
        for i, c in enumerate(cases):
            if c.meta["fmt"] != "mu":
                continue
            j = index.get(c.meta["pair_line"])
            if j is None:
                continue
            hu, hf = ho[i], ho[j]
            if is_crash(hu) or is_crash(hf):
                continue
            fu, ff = hu.split(" "), hf.split(" ")
            if fu[0] != "Ok":
                continue
            fref = dialect.recognize(cases[j].meta["flt"], limit=20)
            if fref is None or fref[0] != "Ok":
                continue
            if ff[0] != "Ok":
                out.append(("filter:rejected", "MessagePack accepted without a filter but %s with filter %r" % (ff[0], cases[j].meta["flt"][:40]), cases[j]))
                continue
            u = parse_tree(fu[1])
            want = project(u, fref[1])
            got = parse_tree(ff[1])
            if show_tree(want) != show_tree(got):
                # objects with repeated keys: statement is about the member list, which project() handles
                out.append(("filter:not-projection", "MessagePack filter %r: got %s, projection of the unfiltered result is %s" % (
                    cases[j].meta["flt"][:50], show_tree(got)[:80], show_tree(want)[:80]), cases[j]))
        return out

    def feature(self, case, h):
        return case.line


# ================================================================================================ C15: nesting
class DepthSuite(Suite):
    name = "depth"

    def generate(self, rng, tier):
        cb = cfgbits(self.cfg)
        cases = []
        Ls = [0, 1, 2, 5, 10, 100, 255] if tier == "quick" else list(range(0, 256, 5)) + [255]
        reps = [1, 2, 3] if tier == "quick" else [1, 2, 3, 4, 5, 6]
        for L in Ls:
            for d in sorted({max(0, L - 1), L, L + 1, L + 2, 2000, 300}):
                for kind in range(8):
                    if kind == 0:
                        txt, fmt = b"[" * d + b"]" * d, "j"
                    elif kind == 1:
                        txt, fmt = b'{"a":' * d + b"1" + b"}" * d, "j"
                    elif kind == 2:
                        txt, fmt = b"[" * d, "j"
                    elif kind == 3:
                        txt, fmt = (b"[{\"k\":" * (d // 2 + 1))[: 6 * (d // 2) + (1 if d % 2 else 0)] or b"1", "j"
                        txt = b"".join([b"[" if i % 2 == 0 else b'{"k":' for i in range(d)]) + b"1"
                    elif kind == 4:
                        txt, fmt = b"\x91" * d + b"\x01", "m"
                    elif kind == 5:
                        txt, fmt = b"\x81\xa0" * d + b"\x01", "m"
                    elif kind == 6:
                        txt, fmt = b"\x91" * d, "m"
                    else:
                        txt, fmt = b"\xdc\x00\x01" * d + b"\xc0", "m"
                    for flt in ("-", hx(b'{"zz":true}'), hx(b"[false]"), hx(b"true")):
                        if flt != "-" and kind in (3, 7):
                            continue
                        cases.append(Case("depth %s %d %d %s %s" % (fmt, cb, L, flt, hx(txt)), L=L, d=d, kind=kind, fmt=fmt, closed=kind in (0, 1, 4, 5, 7), flt=flt))
        for dd in (2, 3, 50, 5000):
            for pre in (b"", b"\x91", b"\x81\xa1k", b"\x92\x01"):
                for flt in ("-", hx(b"false"), hx(b'{"zz":true}'), hx(b"[false]"), hx(b"[{}]")):
                    txt = pre + b"\x81" * dd + b"\xc0"
                    cases.append(Case("depth m %d 10 %s %s" % (cb, flt, hx(txt)), L=10, d=0, kind=10, fmt="m", closed=False, flt=flt))
        if self.cfg.get("ENABLE_COMMENTS"):
            # runs of consecutive comments must not cost stack: kind 9, d = number of comments (the post hook compares the stack used)
            for k in (1, 10, 1000, 20000):
                for shape in (b"%s1", b"[%s1]", b"[1%s,2]", b'{"a"%s:[%s]}'):
                    for com in (b"/**/", b"//x\n", b"/* c */ "):
                        txt = shape.replace(b"%s", com * k)
                        cases.append(Case("depth j %d 10 - %s" % (cb, hx(txt)), L=10, d=1, kind=9, fmt="j", closed=True, flt="-", ncom=k, shape=shape + com))
        # bushy documents: many siblings (empty containers included) at every level, so that the limit must be a function of the depth and
        # not of how many containers were met before; real depth computed by the generator; filters that keep, discard or descend
        nb = 1500 if tier == "quick" else 60000
        filters = [b'{"keep":true}', b'{"skip":false,"*":true}', b"[false]", b"true", b'{"*":[{"keep":true}]}', b'[{"a":[true]}]', b"false", b'{"zz":{"zz":true}}']
        for _ in range(nb):
            target = rng.choice([1, 2, 3, 4, 5, 6, 8, 11, 12])

            def tree(depth_left, wide):
                """returns (node, depth) ; node = ('a', [..]) | ('o', [(key, node)..]) | ('s',)"""
                if depth_left == 0 or (not wide and rng.random() < 0.15):
                    return ("s",), 0
                n = rng.choice([0, 0, 1, 2, 3, 5, 9]) if wide else rng.choice([0, 1, 2])
                kids = []
                dmax = 0
                deep_at = rng.randrange(n) if n else -1
                for i in range(n):
                    k, dk = tree(depth_left - 1, wide and i == deep_at) if (i == deep_at or rng.random() < 0.3) else tree(min(depth_left - 1, rng.choice([0, 1, 1, 2])), False)
                    kids.append(k); dmax = max(dmax, dk)
                if rng.random() < 0.5:
                    return ("a", kids), 1 + dmax
                return ("o", [(rng.choice([b"skip", b"keep", b"a", b"zz", b"k%d" % i]), k) for i, k in enumerate(kids)]), 1 + dmax

            node, d = tree(target, True)

            def js(n):
                if n[0] == "s":
                    return rng.choice([b"1", b'"x"', b"null", b"-2.5", b"true"])
                if n[0] == "a":
                    return b"[" + b",".join(js(k) for k in n[1]) + b"]"
                return b"{" + b",".join(b'"' + k + b'":' + js(v) for k, v in n[1]) + b"}"

            def mp(n):
                if n[0] == "s":
                    return rng.choice([b"\x01", b"\xa1x", b"\xc0", b"\xca\xc0\x20\x00\x00", b"\xc3"])
                cnt = len(n[1])
                if n[0] == "a":
                    hd = rng.choice([bytes([0x90 | cnt]), b"\xdc" + cnt.to_bytes(2, "big"), b"\xdd" + cnt.to_bytes(4, "big")])
                    return hd + b"".join(mp(k) for k in n[1])
                hd = rng.choice([bytes([0x80 | cnt]), b"\xde" + cnt.to_bytes(2, "big"), b"\xdf" + cnt.to_bytes(4, "big")])
                return hd + b"".join(bytes([0xa0 | len(k)]) + k + mp(v) for k, v in n[1])

            fmt = rng.choice("jm")
            txt = js(node) if fmt == "j" else mp(node)
            for L in sorted({max(0, d - 1), d, d + 1, rng.choice([0, 1, 2, 3, 10])}):
                flt = rng.choice(["-"] + [hx(x) for x in filters])
                cases.append(Case("depth %s %d %d %s %s" % (fmt, cb, L, flt, hx(txt)), L=L, d=d, kind=8, fmt=fmt, closed=True, flt=flt))
        return cases

    def canon_h(self, case, h):
        return " ".join(x for x in h.split(" ") if not x.startswith("stack="))

    def calibrate(self, cases, ho):
        # stack bytes used at L=0 and L=1 per (format, filter) give a + b*(L+1)
        pass

    def oracle(self, case, h):
        o = Suite.oracle(self, case, h)
        if o:
            return o
        f = h.split(" ")
        L, d = case.meta["L"], case.meta["d"]
        code = f[0]
        nesting = int(f[1].split("=")[1])
        if code == "Ok" and nesting > L:
            return ("depth:ok-too-deep", "Ok with nesting()=%d > limit %d" % (nesting, L))
        if d > L and code != "TooDeep":
            return ("depth:not-toodeep", "input opens depth %d with limit %d (kind %d, filter %s): %s" % (d, L, case.meta["kind"], case.meta["flt"], code))
        if d <= L and code == "TooDeep":
            return ("depth:spurious-toodeep", "input of depth %d with limit %d gives TooDeep" % (d, L))
        if code == "TooDeep":
            # "as soon as": nothing beyond the offending bracket/header is consumed
            pos = int(f[2].split("=")[1])
            per = {0: 1, 1: 5, 2: 1, 4: 1, 5: 2, 6: 1, 7: 3}.get(case.meta["kind"])
            if per and pos > per * (L + 1):
                return ("depth:late-toodeep", "TooDeep only after %d bytes; the container at depth %d opens within the first %d" % (pos, L + 1, per * (L + 1)))
        return None

    def post(self, cases, ho):
        """stack consumed is a function of L alone: an input of 2000 levels must not use more stack than one of L+1 / L+2 levels
        (same format, container kind, filter and limit), beyond a small slack"""
        out = []
        ref = {}
        rows = []
        bushy = []
        chainmax = {}
        comments = {}
        for c, h in zip(cases, ho):
            if is_crash(h):
                continue
            f = h.split(" ")
            st = [x for x in f if x.startswith("stack=")]
            if not st:
                continue
            stack = int(st[0][6:])
            key = (c.meta["L"], c.meta["kind"], c.meta["flt"])
            if c.meta["kind"] == 9:
                comments.setdefault(c.meta["shape"], {})[c.meta["ncom"]] = (stack, c)
                continue
            if c.meta["kind"] == 8:
                bushy.append((c, stack))
                continue
            rows.append((key, c, stack))
            chainmax[(c.meta["fmt"], c.meta["L"])] = max(chainmax.get((c.meta["fmt"], c.meta["L"]), 0), stack)
            if c.meta["d"] in (c.meta["L"] + 1, c.meta["L"] + 2):
                ref[key] = max(ref.get(key, 0), stack)
        for key, c, stack in rows:
            if key in ref and stack > ref[key] + 1024:
                out.append(("depth:stack", "limit %d: an input of depth %d uses %d bytes of stack, one of depth L+1/L+2 uses %d" % (key[0], c.meta["d"], stack, ref[key]), c))
        for shape, by in comments.items():
            if 1 in by:
                for k, (stack, c) in by.items():
                    if stack > by[1][0] + 1024:
                        out.append(("depth:stack", "%d consecutive comments use %d bytes of stack, one comment uses %d: the stack consumed depends on the content of the input" % (k, stack, by[1][0]), c))
        # bushy documents under limit L never use more stack than the deepest chains under the next larger limit of the chain series
        for c, stack in bushy:
            bigger = sorted(L2 for (fm, L2) in chainmax if fm == c.meta["fmt"] and L2 >= c.meta["L"])
            if bigger and stack > chainmax[(c.meta["fmt"], bigger[0])] + 1024:
                out.append(("depth:stack", "limit %d: a document of depth %d with many siblings uses %d bytes of stack, the deepest chains under limit %d use %d" %
                            (c.meta["L"], c.meta["d"], stack, bigger[0], chainmax[(c.meta["fmt"], bigger[0])]), c))
        return out

    def feature(self, case, h):
        return case.line if case.meta["d"] > 0 else None



class CopyArrSuite(Suite):
    """C13, last clause: copyArray(document -> C array) for every destination type, destination lengths around the array length,
    the fixed-size and two-dimensional forms and the string form; compared with the model CA and judged independently:
    count = min(lengths), cells beyond the count keep the fill pattern, integers in range arrive exactly and out-of-range ones as 0"""
    name = "copyarr"
    KINDS = {"i8": (True, 8), "u8": (False, 8), "i16": (True, 16), "u16": (False, 16), "i32": (True, 32), "u32": (False, 32), "i64": (True, 64), "u64": (False, 64)}

    def canon_h(self, case, h):
        return canon_nan(h)

    def canon_m(self, case, m):
        return canon_nan(m)

    def elem(self, rng):
        r = rng.random()
        if r < 0.35:
            k = rng.choice([0, 7, 8, 15, 16, 31, 32, 63, 64])
            v = 2 ** k + rng.choice([-2, -1, 0, 1])
            v = max(0, min(v, 2 ** 64 - 1))
            if rng.random() < 0.4 and v < 2 ** 63:
                return "I-%d" % v
            return "U%d" % v
        if r < 0.5:
            return "d%016x" % gens.double_bits(rng.choice([0.0, 1.5, -1.5, 255.0, 256.0, -129.0, 65535.5, 2147483648.0, -2147483649.0, 4294967296.0, 1e19, -1e19, 1e300, 3.999]))
        if r < 0.6:
            return "f%08x" % rng.choice([0x3fc00000, 0x4f000000, 0xcf000001, 0x7f7fffff, 0x7f800000, 0x7fc00000, 0x00000001])
        if r < 0.7:
            return rng.choice("SL") + rng.choice([b"12", b"-7", b"3.9", b"300", b"abc", b"", b"1e3", b"18446744073709551616"]).hex()
        if r < 0.8:
            return rng.choice(["N", "T", "F"])
        if r < 0.9:
            return "[" + ",".join(self.elem(rng) for _ in range(rng.choice([0, 1, 2, 3, 4, 5]))) + "]"
        return rng.choice(["{61:I1}", "R31", "[]"])

    def generate(self, rng, tier):
        cb = cfgbits(self.cfg)
        n = getattr(self, "n", 4000 if tier == "quick" else 300000)
        kinds = list(self.KINDS) + ["f", "d"]
        cases = []
        for _ in range(n):
            r = rng.random()
            ln = rng.choice([0, 1, 2, 3, 4, 6])
            if r < 0.08:
                doc = self.elem(rng)                      # not necessarily an array
            else:
                doc = "[" + ",".join(self.elem(rng) for _ in range(ln)) + "]"
            kind = rng.choice(kinds)
            f = rng.random()
            if f < 0.55:
                dn = rng.choice([0, 1, max(0, ln - 1), ln, ln + 1, ln + 3])
                cases.append(Case("copyarr %d %s %d t:%s" % (cb, kind, dn, doc), doc=doc, kind=kind, dn=dn, form=1))
            elif f < 0.7:
                cases.append(Case("copyarr3 %d %s t:%s" % (cb, kind, doc), doc=doc, kind=kind, dn=3, form=1))
            elif f < 0.85:
                cases.append(Case("copyarr2 %d %s t:%s" % (cb, kind, doc), doc=doc, kind=kind, dn=2, form=2))
            else:
                sb = rng.choice([b"", b"a", b"ab", b"abc", b"abcd", b"abcdefg", b"abcdefgh", b"abcdefghijkl", b"a\x00b", b"\xff\xfe"])
                sdoc = rng.choice(["S" + sb.hex(), "S" + sb.hex(), "L" + sb.replace(b"\x00", b"").hex(), "N", "I5", "[S61]", "R" + (sb.hex() or "31")])
                cases.append(Case("copystr %d t:%s" % (rng.choice([1, 2, 4, 8]), sdoc), doc=sdoc, kind="str", form=3))
        return cases

    def oracle(self, case, h):
        o = Suite.oracle(self, case, h)
        if o:
            return (o[0], o[1] + " on " + case.line[:100])
        f = h.split(" ")
        m = case.meta
        if m["form"] == 3:
            n = int(case.line.split(" ")[1])
            buf = bytes.fromhex(f[1])
            if len(buf) != n:
                return ("copyarr:size", "destination of %d bytes reported as %d" % (n, len(buf)))
            doc = m["doc"]
            sb = bytes.fromhex(doc[1:]) if doc[0] in "SL" else b""
            want = sb[: n - 1] + b"\x00" + b"\x5a" * (n - 1 - min(n - 1, len(sb)))
            if buf != want:
                return ("copyarr:string", "char[%d] after copying %r: %s, expected %s" % (n, sb, buf.hex(), want.hex()))
            return None
        tree = parse_tree(m["doc"]) if m["doc"][0] == "[" else None
        items = tree[1] if tree and tree[0] == "A" else []
        count = int(f[0])
        cells = f[1:]
        kind = m["kind"]
        fill = {"f": "5a5a5a5a", "d": "5a5a5a5a5a5a5a5a"}.get(kind) or str(int("5a" * (self.KINDS[kind][1] // 8), 16))
        if m["form"] == 2:
            if count != min(2, len(items)) or len(cells) != 6:
                return ("copyarr:count", "copied %d rows of %d into [2][3] (%d cells shown)" % (count, len(items), len(cells)))
            for i in range(2):
                row = items[i][1] if i < len(items) and items[i][0] == "A" else []
                for j in range(3):
                    if (i >= len(items) or j >= len(row)) and cells[i * 3 + j] != fill:
                        return ("copyarr:touched", "cell [%d][%d] beyond the copied part changed to %s: %s" % (i, j, cells[i * 3 + j], case.line[:100]))
            return None
        dn = m["dn"]
        if len(cells) != dn:
            return ("copyarr:size", "destination of %d cells reported as %d" % (dn, len(cells)))
        if count != min(dn, len(items)):
            return ("copyarr:count", "copied %d of %d elements into %d cells: %s" % (count, len(items), dn, case.line[:100]))
        for i in range(count, dn):
            if cells[i] != fill:
                return ("copyarr:touched", "cell %d beyond the %d copied ones changed to %s: %s" % (i, count, cells[i], case.line[:100]))
        if kind in self.KINDS:
            signed, bits = self.KINDS[kind]
            lo, hi = (-(2 ** (bits - 1)), 2 ** (bits - 1) - 1) if signed else (0, 2 ** bits - 1)
            for i in range(count):
                it = items[i]
                if it[0] in "UI":
                    v = int(it[1])
                    want = v if lo <= v <= hi else 0
                    if cells[i] != str(want):
                        return ("copyarr:value", "element %s copied into %s as %s, expected %d" % (it[1], kind, cells[i], want))
        return None

    def feature(self, case, h):
        return (case.meta["form"], case.meta["kind"], h.split(" ")[0])


class DeserMemSuite(Suite):
    """C06, last clause: the memory requested while deserializing is bounded by one maximum-size string plus a linear function of the bytes
    consumed - for well-formed, truncated and hostile inputs (long strings, many tiny elements, deep nesting, repeated keys, escapes).
    Implementation only (the ledger is the implementation's): no model line."""
    name = "desermem"
    uses_driver = False

    def generate(self, rng, tier):
        cb = cfgbits(self.cfg)
        n = getattr(self, "n", 1500 if tier == "quick" else 60000)
        texts = []
        for k in (0, 1, 30, 31, 32, 63, 64, 1000, 40000, 65535, 65536, 70000):
            texts.append(b'"' + b"a" * k + b'"')
            texts.append(b'"' + b"a" * k)                                   # unterminated
            texts.append(b'["x","' + b"\\u00e9" * (k // 6) + b'"]')
            texts.append(b'{"' + b"k" * k + b'":1}')
        for k in (1, 255, 256, 257, 1023, 1024, 1025, 5000):
            texts.append(b"[" + b",".join([b"1"] * k) + b"]")
            texts.append(b"[" + b",".join([b'""'] * k) + b"]")
            texts.append(b"[" + b",".join(b'"%d"' % i for i in range(k)) + b"]")
            texts.append(b"{" + b",".join(b'"k":%d' % i for i in range(k)) + b"}")           # one key repeated: values replaced
            texts.append(b"{" + b",".join(b'"k%d":[]' % i for i in range(k)) + b"}")
            texts.append(b"[" * min(k, 250) + b"]" * min(k, 250))
            texts.append(b"[" + b",".join([b"[]"] * k))                      # truncated
        for _ in range(n):
            exp, txt = gens.gen_json_doc(rng, maxdepth=rng.choice([1, 2, 3, 5]), budget=rng.choice([3, 8, 14, 30, 60]))
            if rng.random() < 0.3 and txt:
                cut = rng.randrange(len(txt))
                txt = txt[:cut]
            texts.append(txt)
        return [Case("jsonmem %d %d %s" % (cb, rng.choice([10, 50, 255]), hx(t)), text=t, nocompare=True) for t in texts]

    def oracle(self, case, h):
        o = Suite.oracle(self, case, h)
        if o:
            return (o[0], o[1] + " on " + case.line[:100])
        f = h.split(" ")
        consumed = int(f[1])
        req = int(f[2][4:])
        peak = int(f[3][5:])
        # total requested: strings grow by doubling (<= 2x their length + start size), slots 16 bytes each in pools of 256, table of pools
        bound_total = 2 * (65535 + 64) + 2 * 4096 + 1024 + 24 * consumed      # observed on the unchanged tree: <= 11.2 bytes per byte consumed
        bound_peak = (65535 + 64) + 2 * 4096 + 1024 + 20 * consumed             # observed: <= 10.1
        if req > bound_total:
            return ("desermem:total", "%d bytes requested after consuming %d bytes (%s), bound %d: %r" % (req, consumed, f[0], bound_total, case.meta["text"][:40]))
        if peak > bound_peak:
            return ("desermem:peak", "%d bytes held after consuming %d bytes (%s), bound %d: %r" % (peak, consumed, f[0], bound_peak, case.meta["text"][:40]))
        return None

    def feature(self, case, h):
        return h.split(" ")[0] + str(len(case.meta["text"]).bit_length())


class CopyEqSuite(Suite):
    """C04: 'copies are deep and independent of their source' for documents of any origin (API terms, JSON, MessagePack incl. bin/ext and repeated keys):
    set(), the copy constructor and member assignment give a value equal to the source; mutating the copies leaves the source alone. Implementation only."""
    name = "copyeq"
    uses_driver = False

    def generate(self, rng, tier):
        n = getattr(self, "n", 1200 if tier == "quick" else 60000)
        cases = []
        for hexs_ in ["82a16101a16102", "83a16101a16290a16103", "9182a16bc0a16bc3", "81a161 82a162 01 a162 02".replace(" ", "")]:
            cases.append(Case("copyeq m:" + hexs_, spec="m:" + hexs_, nocompare=True))
        for i in range(n):
            r = rng.random()
            if r < 0.45:
                spec = "t:" + show_tree(gens.gen_doc_term(rng, raw="mp"))
            elif r < 0.8:
                spec = "m:" + mpack.encode(mpack.gen_value(rng, dup_keys=True), rng).hex()
            else:
                spec = "j:" + gens.gen_json_doc(rng)[1].hex()
            cases.append(Case("copyeq " + spec, spec=spec, nocompare=True))
        return cases

    @staticmethod
    def has_dup(t):
        if t[0] == "A":
            return any(CopyEqSuite.has_dup(x) for x in t[1])
        if t[0] == "O":
            ks = [k for k, _ in t[1]]
            return len(set(ks)) != len(ks) or any(CopyEqSuite.has_dup(v) for _, v in t[1])
        return False

    def oracle(self, case, h):
        o = Suite.oracle(self, case, h)
        if o:
            return (o[0], o[1] + " on " + case.line[:100])
        f = h.split(" ")
        if len(f) < 7:
            return ("copyeq:bad-output", h[:100])
        src, c2, c3, c4 = f[0], f[1], f[2], f[3]
        if f[6] != "src=same":
            return ("copyeq:source-changed", "mutating a copy changed the source: " + case.line[:100])
        dup = self.has_dup(parse_tree(src)) if src not in ("?",) else False
        for name, c in (("set()", c2), ("copy constructor", c3), ("member assignment", c4)):
            if canon_nan(c) != canon_nan(src):
                sig = "copyeq:not-equal" + (":repeated-keys" if dup else "")
                return (sig, "%s of %s gives %s" % (name, src[:80], c[:80]))
        maybe_nan = re.search(r"f(7f[89a-f]|ff[89a-f])|d(7ff|fff)", src) is not None      # a NaN never compares equal, not even to its copy (C18)
        if f[5] != "eq=1" and not maybe_nan and not dup and "R" not in src:
            return ("copyeq:compare", "the copy does not compare equal to its source: " + src[:80])
        return None

    def feature(self, case, h):
        return h.split(" ")[0][:40]


def geo_suffix(cfg):
    """geometry fields for the slot-level deserializer ops when the build is not the default one"""
    if not any(k in cfg for k in ("POOL_CAPACITY", "INITIAL_POOL_COUNT", "SLOT_ID_SIZE", "STRING_LENGTH_SIZE")):
        return ""
    g = geo_of(cfg)
    return " %d %d %d %d %d" % (g[0], g[1], g[2], g[3], 2 ** (8 * cfg.get("STRING_LENGTH_SIZE", 2)) - 1)


class JsonDocSuite(Suite):
    """slot-level tie of deserializeJson (model AJ/Model/JDD.lean): for texts of every kind (valid, mutated, long strings that make the
    string builder grow, repeated strings and keys that exercise de-duplication and member reuse) into an empty or a used document, without and
    with allocation failures at every early position: code, document, bytes consumed, overflowed flag AND the allocator log are compared with
    the model; independent checks: nothing leaks, a failed allocation is reported (NoMemory or an earlier syntax error, overflowed set),
    Ok implies not overflowed"""
    name = "jsondoc"

    def generate(self, rng, tier):
        cb = cfgbits(self.cfg)
        n = getattr(self, "n", 1500 if tier == "quick" else 120000)
        cases = []
        texts = [b'[1,"abc",{"k":2,"abc":12345678901}]', b'{"a":"hello","b":"hello","a":null,"cc":[1.5,"x",true]}', b'{"k":{"k":{"k":"k"}},"k":"k"}',
                 b'["' + b"x" * 31 + b'","' + b"y" * 32 + b'","' + b"x" * 31 + b'"]', b'"' + b"z" * 200 + b'"', b'{"' + b"q" * 70 + b'":"' + b"q" * 70 + b'"}',
                 b"[" + b",".join([b"1"] * 300) + b"]", b"[" + b",".join([b"[]"] * 260) + b"]", b'[4294967296,-2147483649,1.5,0.1,1e300,18446744073709551615]',
                 b'{a:1,b:\'x\',"a":[]}', b'["\\u00e9\\ud83d\\ude00"]', b'["a","a\\u0000b","a\\u0000","a"]', b'{"x":1,"x\\u0000y":2,"x\\u0000":[3],"x":4}', b'{"abc":{"abc\\u0000":"abc\\u0000abc"},"abc\\u0000":"abc"}', b"[1,2", b'{"a":1,"b"', b'"unterminated', b"[1 2]", b"  7  ", b"tru", b"[[[[[[[[[[[[1]]]]]]]]]]]]"]
        fails = ["-"] + ["a%d" % k for k in range(1, 13)] + ["f%d" % k for k in range(1, 7)]
        for t in texts:
            for pre in (0, 1):
                for f in fails:
                    cases.append(Case("jsondoc %d 10 %d %s %s" % (cb, pre, f, hx(t)), text=t, fail=f))
        maxlen = 2 ** (8 * self.cfg.get("STRING_LENGTH_SIZE", 2)) - 1
        # one string used by more values than a narrow reference counter can count, then one user replaced (a repeated key)
        for N in ((255, 256, 257, 300) if maxlen == 255 or self.cfg.get("SLOT_ID_SIZE", 4) == 1 else ((65535, 65536, 65537) if tier == "thorough" and self.cfg.get("POOL_CAPACITY", 256) >= 64 else ())):      # with 2- or 3-slot pools these need tens of thousands of pools: minutes in the model
            t = b'{"palette":[' + b",".join([b'{"rgb":0}'] * N) + b'],"mode":"rgb","mode":"hsv","gamma":2.5}'
            cases.append(Case("jsondoc %d 10 0 - %s" % (cb, hx(t)), text=t, fail="-"))
            t = b'["rgb",' + b",".join([b'"rgb"'] * N) + b',{"a":"rgb","a":1}]'
            cases.append(Case("jsondoc %d 10 0 - %s" % (cb, hx(t)), text=t, fail="-"))
        # strings around and beyond the longest storable length: the builder's buffer must be released when its growth is refused
        for k in (maxlen, maxlen + 1, maxlen + 4465):
            for t in (b'"' + b"s" * k + b'"', b'["a","' + b"s" * k + b'","b"]', b'{"' + b"k" * k + b'":1}', b'{k' + b"k" * k + b':1}'):
                for f in ("-", "a3", "a12", "a14"):
                    cases.append(Case("jsondoc %d 10 0 %s %s" % (cb, f, hx(t)), text=t, fail=f))
        for _ in range(n):
            r = rng.random()
            if r < 0.6:
                _, t = gens.gen_json_doc(rng, maxdepth=rng.choice([1, 2, 3, 4]), budget=rng.choice([3, 8, 14, 30]))
            elif r < 0.8:
                _, t = gens.gen_json_doc(rng, maxdepth=3, budget=12)
                t = gens.mutate(rng, t)
            else:
                # many strings from a small pool: de-duplication, builder reuse, growth
                pool = [b"a", b"bb", b"k" * 31, b"k" * 32, b"m" * 63, b"m" * 64, b"", b"w" * rng.choice([5, 40, 130])]
                t = b"[" + b",".join(rng.choice([b'"%s"' % rng.choice(pool), b'{"%s":"%s"}' % (rng.choice(pool), rng.choice(pool)), b"1"]) for _ in range(rng.choice([2, 5, 9]))) + b"]"
            f = rng.choice(fails) if rng.random() < 0.6 else "-"
            cases.append(Case("jsondoc %d %d %d %s %s" % (cb, rng.choice([10, 10, 3, 50]), rng.choice([0, 0, 1]), f, hx(t)), text=t, fail=f))
        sfx = geo_suffix(self.cfg)
        for c in cases:
            c.line += sfx
        return cases

    def oracle(self, case, h):
        o = Suite.oracle(self, case, h)
        if o:
            return (o[0], o[1] + " on " + case.line[:100])
        body, _, log = h.partition("|")
        f = body.split(" ")
        if "LEAK" in h:
            return ("jsondoc:leak", "blocks left after the document was destroyed: " + case.line[:100])
        code, over = f[0], f[3]
        if ":?" in f[1] or "?:" in f[1]:
            return ("jsondoc:member-without-key-or-value", "the document left holds a member without key or value: %s on %s" % (f[1][:80], case.line[:100]))
        failed = "!" in log
        if failed and (over != "o=1" or code == "Ok"):
            return ("jsondoc:unreported-failure", "an allocation failed but the result is %s %s: %s" % (code, over, case.line[:100]))
        if code == "Ok" and over != "o=0":
            return ("jsondoc:ok-overflowed", "Ok with overflowed(): " + case.line[:100])
        if code == "NoMemory" and over != "o=1":
            return ("jsondoc:nomemory-not-flagged", "NoMemory without overflowed(): " + case.line[:100])
        return None

    def feature(self, case, h):
        return h.partition("|")[2][:60] + h.split(" ")[0]


class JsonDocFSuite(JsonDocSuite):
    """slot-level tie of the FILTERED deserializeJson (model AJ/Model/JDDF.lean): (filter, text) pairs from the filter suite's generators plus
    texts with long and repeated keys (the key of every member of a visited object goes through the string builder, kept or not), into an empty
    or a used document, without and with allocation failures: code, document, bytes consumed, overflowed flag AND the allocator log are compared
    with the model; same independent checks as the unfiltered suite"""
    name = "jsondocf"

    def generate(self, rng, tier):
        cb = cfgbits(self.cfg)
        n = getattr(self, "n", 1500 if tier == "quick" else 120000)
        cases = []
        fails = ["-"] + ["a%d" % k for k in range(1, 13)] + ["f%d" % k for k in range(1, 7)]
        fixed = [(b'{"a":true}', b'{"a":1,"b":2,"a":[1,2]}'), (b'{"a":true}', b'{"' + b"b" * 100 + b'":1,"a":"' + b"v" * 40 + b'","' + b"c" * 31 + b'":[1,2,{"a":3}]}'),
                 (b'[{"k":true}]', b'[{"k":1,"x":2},{"x":3},5,{"k":"k","k":"x"}]'), (b'{"a":{"b":true}}', b'{"a":{"b":[1,"s"],"c":"skipped"},"d":{"b":1}}'),
                 (b'true', b'{"a":[1,"abc",{"k":2}]}'), (b'false', b'{"a":[1,"abc",{"k":2}]}'), (b'null', b'[1,2]'), (b'{"a":true}', b'[1,2,{"a":1}]'), (b'[true]', b'{"a":1}'),
                 (b'{"a":true}', b'{"b":"' + b"s" * 300 + b'","a":"' + b"s" * 300 + b'"}'), (b'{"a":true}', b'{b:1,a:\'x\',"c":/*c*/[1,{"a":2}]}'), (b'{"a":[true]}', b'{"a":[1,2'),
                 (b'{"a":true}', b'{"b":[[[[[[[[[[[[1]]]]]]]]]]]],"a":1}'), (b'{"a":true}', b'{"a":1,"b":tru}')]
        for flt, t in fixed:
            for pre in (0, 1):
                for f in fails:
                    cases.append(Case("jsondocf %d 10 %d %s %s %s" % (cb, pre, f, hx(flt), hx(t)), text=t, fail=f))
        fs = FilterSuite(cfg=self.cfg)
        fs.n = 4 * n
        src = [c for c in fs.generate(rng, tier) if c.meta.get("fmt") == "j"][:n]
        for c in src:
            t, flt = c.meta["text"], c.meta["flt"]
            if rng.random() < 0.2:
                # lengthen the keys: builder growth for kept and for skipped members
                t = t.replace(b'"a":', b'"a":', 1).replace(b'"c":', b'"' + b"c" * rng.choice([31, 32, 70]) + b'":')
            f = rng.choice(fails) if rng.random() < 0.6 else "-"
            cases.append(Case("jsondocf %d %d %d %s %s %s" % (cb, c.meta["lim"], rng.choice([0, 0, 1]), f, hx(flt), hx(t)), text=t, fail=f))
        sfx = geo_suffix(self.cfg)
        for c in cases:
            c.line += sfx
        return cases


class MpDocSuite(JsonDocSuite):
    """slot-level tie of deserializeMsgPack (model AJ/Model/MDD.lean): well-formed objects in arbitrary legal widths (incl. bin/ext, repeated keys,
    repeated strings: buffer reuse and de-duplication), prefixes, corruptions, hostile headers, into an empty or a used document, without and with
    allocation failures: code, document, bytes consumed, overflowed flag AND the allocator log are compared with the model; same independent checks"""
    name = "mpdoc"

    def generate(self, rng, tier):
        n = getattr(self, "n", 1500 if tier == "quick" else 120000)
        cases = []
        fails = ["-"] + ["a%d" % k for k in range(1, 13)] + ["f%d" % k for k in range(1, 7)]
        fixed = ["93a568656c6c6fa568656c6c6fa26869", "9282a2696401a46e616d65a5616c70686182a2696402a46e616d65a162", "82a16101a16102", "c4021234", "c70301616263", "d40561",
                 "92cf0000000100000000d3ffffffff7fffffff", "92cb3ff8000000000000ca3fc00000", "dc0105" + "c0" * 261, "d9ff" + "61" * 255, "dbffffffff", "c6ffffffff", "92a3616263", "81", "c1",
                 "93a0a0a0", "81a0a0", "9192939495969798999a9b9c01"]
        for hexs_ in fixed:
            for pre in (0, 1):
                for f in fails:
                    cases.append(Case("mpdoc 10 %d %s %s" % (pre, f, hexs_), text=bytes.fromhex(hexs_), fail=f))
        # keys, strings and binaries of exactly the longest storable length, one less, one more (the model takes the limit from the geometry fields of the line)
        maxlen = 2 ** (8 * self.cfg.get("STRING_LENGTH_SIZE", 2)) - 1
        if maxlen <= 65535:
            for ln in (maxlen - 1, maxlen, maxlen + 1):
                hdrs = (["d9%02x" % ln] if ln < 256 else []) + (["da%04x" % ln] if ln < 65536 else []) + ["db%08x" % ln]
                for hd in hdrs:
                    body = "6b" * ln
                    for hexs_ in ("81" + hd + body + "01", "82a16b02" + hd + body + "91c0", "91" + hd + body, "81" + hd + body):
                        for f in ("-", "a1", "a2", "a3"):
                            cases.append(Case("mpdoc 10 0 %s %s" % (f, hexs_), text=bytes.fromhex(hexs_), fail=f))
        for _ in range(n):
            v = mpack.gen_value(rng, dup_keys=True)
            data = mpack.encode(v, rng)
            r = rng.random()
            if r < 0.15 and data:
                data = data[:rng.randrange(len(data))]
            elif r < 0.3 and data:
                b = bytearray(data)
                b[rng.randrange(len(b))] = rng.getrandbits(8)
                data = bytes(b)
            f = rng.choice(fails) if rng.random() < 0.6 else "-"
            cases.append(Case("mpdoc %d %d %s %s" % (rng.choice([10, 10, 3, 50]), rng.choice([0, 0, 1]), f, hx(data)), text=data, fail=f))
        sfx = geo_suffix(self.cfg)
        for c in cases:
            c.line += sfx
        return cases

class MpDocFSuite(JsonDocSuite):
    """slot-level tie of the FILTERED deserializeMsgPack (model AJ/Model/MDDF.lean): (filter, bytes) pairs from the filter suite's generators plus
    objects with long and repeated keys and skipped nested objects (EVERY key goes through the string buffer, kept or not), into an empty or a
    used document, without and with allocation failures: code, document, bytes consumed, overflowed flag AND the allocator log are compared
    with the model; same independent checks as the unfiltered suite"""
    name = "mpdocf"

    def generate(self, rng, tier):
        n = getattr(self, "n", 1500 if tier == "quick" else 120000)
        cases = []
        fails = ["-"] + ["a%d" % k for k in range(1, 13)] + ["f%d" % k for k in range(1, 7)]
        fixed = [(b'{"a":true}', "82a16101a16202"), (b'{"a":true}', "82a16201a16192a3616263a3616263"), (b'{"a":true}', "82d920" + "62" * 32 + "81a1610581a16102a16103"),
                 (b'[{"k":true}]', "9382a16b01a1780281a178030582a16ba16ba16ba178"), (b'{"a":{"b":true}}', "82a16182a1629201a173a163a7736b6970706564a16481a16201"),
                 (b'true', "81a1619301a361626381a16b02"), (b'false', "81a1619301a361626381a16b02"), (b'null', "9201"), (b'{"a":true}', "930102" "81a16101"), (b'[true]', "81a16101"),
                 (b'{"a":true}', "82a162c403010203a161c70301616263"), (b'{"a":[true]}', "81a1619201"), (b'{"a":true}', "82a16281a163d9ff" + "61" * 10), (b'{"a":true}', "82a1629a9a9a9a9a9a9a9a9a9a9a01a16101")]
        for flt, hexs_ in fixed:
            for pre in (0, 1):
                for f in fails:
                    cases.append(Case("mpdocf 10 %d %s %s %s" % (pre, f, hx(flt), hexs_), text=bytes.fromhex(hexs_), fail=f))
        fs = FilterSuite(cfg=self.cfg)
        fs.n = 4 * n
        src = [c for c in fs.generate(rng, tier) if c.meta.get("fmt") == "m"][:n]
        for c in src:
            t, flt = c.meta["text"], c.meta["flt"]
            f = rng.choice(fails) if rng.random() < 0.6 else "-"
            cases.append(Case("mpdocf %d %d %s %s %s" % (c.meta["lim"], rng.choice([0, 0, 1]), f, hx(flt), hx(t) if t else "-"), text=t, fail=f))
        sfx = geo_suffix(self.cfg)
        for c in cases:
            c.line += sfx
        return cases


# ================================================================================================ C16: streams
class StreamSuite(Suite):
    name = "stream"

    def generate(self, rng, tier):
        cb = cfgbits(self.cfg)
        n = getattr(self, "n", 1500 if tier == "quick" else 100000)
        cases = []
        for i in range(n):
            k = rng.randrange(1, 8)
            docs = []
            if rng.random() < 0.6:
                parts = []
                for j in range(k):
                    exp, txt = gens.gen_value(rng, 0, 3, [rng.choice([1, 3, 6])])
                    sep = b"".join(rng.choice([b" ", b"\n", b"\r\n", b"\t"]) for _ in range(rng.choice([0, 1, 1, 2])))
                    isnum = exp[0] in "UIQ"
                    if isnum and not sep:
                        sep = b"\n"
                    if self.cfg.get("ENABLE_COMMENTS") and rng.random() < 0.5:
                        # comments between documents, with every spelling of the closing star run
                        sep += rng.choice([b"/**/", b"/***/", b"/****/", b"/* x **/", b"/** y ***/ ", b"//c\n", b"/* a */\n/* b **/"])
                    lead = gens.gen_ws(rng)
                    parts.append(lead + txt + sep)
                    docs.append((exp, len(lead) + len(txt), isnum))
                data = b"".join(parts)
                cases.append(Case("stream %d 20 %d %s" % (cb, rng.choice([0, 1, 3]), hx(data)), fmt="j", docs=list(docs), parts=parts))
                if rng.random() < 0.4:
                    # the same stream read with a filter: discarded parts are skipped, and must be skipped exactly
                    flt = gen_filter(rng, keys=(b"a", b"b", b"k", b""))
                    cases.append(Case("streamf %d 20 %d %s %s" % (cb, rng.choice([0, 1, 3]), hx(flt), hx(data)), fmt="jf", docs=list(docs), parts=parts))
                if i % 97 == 0:
                    # numbers too long to be STORED (64 bytes and more) in parts the filter discards: they are skipped whatever their length
                    longs = [b"1" * rng.choice([64, 65, 100, 300]), b"0." + b"3" * rng.choice([62, 63, 80]), b"-12e" + b"0" * 70 + b"1", b"9" * 63 + b".5"]
                    fparts, fdocs = [], []
                    for txt in (b'{"a":' + rng.choice(longs) + b',"k":1}', b"[" + rng.choice(longs) + b",2]", b'{"k":{"a":1},"b":[' + rng.choice(longs) + b"," + rng.choice(longs) + b']}',
                                b'{"z":{"y":' + rng.choice(longs) + b'}}', b'{"k":2}'):
                        sep = rng.choice([b"\n", b" ", b"\r\n", b""])
                        fparts.append(txt + sep)
                        fdocs.append((None, len(txt), False))
                    cases.append(Case("streamf %d 20 %d %s %s" % (cb, rng.choice([0, 1, 3]), hx(b'{"k":true}'), hx(b"".join(fparts))), fmt="jf", docs=fdocs, parts=fparts))
            else:
                vals = [mpack.gen_value(rng, maxdepth=3) for _ in range(k)]
                encs = [mpack.encode(v, rng) for v in vals]
                cases.append(Case("mpstream 20 %d %s" % (rng.choice([0, 1, 3]), hx(b"".join(encs))), fmt="m", vals=vals, encs=encs))
        return cases

    def oracle(self, case, h):
        o = Suite.oracle(self, case, h)
        if o:
            return o
        if "ISTREAM-DIFFERS" in h:
            return ("stream:istream-differs", "std::istream and custom reader give different sequences: " + case.line[:100])
        calls = [c for c in h.split(";") if c]
        if case.meta["fmt"] == "m":
            encs, vals = case.meta["encs"], case.meta["vals"]
            pos = 0
            for i, (e, v) in enumerate(zip(encs, vals)):
                if i >= len(calls):
                    return ("stream:stopped-early", "only %d of %d MessagePack objects returned" % (len(calls), len(encs)))
                f = calls[i].split(" ")
                pos += len(e)
                if f[0] != "Ok":
                    return ("stream:mp-rejected", "object %d gave %s" % (i, f[0]))
                if int(f[2]) != pos:
                    return ("stream:mp-consumption", "after object %d the reader is at %s, the object ends at %d" % (i, f[2], pos))
                probs = mp_expected_matches(v, parse_tree(f[1]))
                if probs:
                    return ("stream:mp-wrong-value", "object %d: %s" % (i, probs[0]))
            return None
        pos = 0
        for i, ((exp, used, isnum), part) in enumerate(zip(case.meta["docs"], case.meta["parts"])):
            if i >= len(calls):
                return ("stream:stopped-early", "only %d of %d documents returned" % (len(calls), len(case.meta["docs"])))
            f = calls[i].split(" ")
            if f[0] != "Ok":
                sig = "stream:rejected" + (":number-then-whitespace" if isnum else "")
                return (sig, "document %d (%r) gave %s" % (i, part[:40], f[0]))
            got = int(f[2])
            want = pos + used
            if (not isnum and got != want) or (isnum and not (want <= got <= want + 1)):
                return ("stream:consumption", "after document %d (%r) the reader is at %d, the value ends at %d" % (i, part[:40], got, want))
            probs = gens.match_expected(exp, parse_tree(f[1])) if case.meta["fmt"] == "j" else []      # with a filter only the consumption is judged here (the value is C11's subject)
            if probs:
                sig = "stream:wrong-value"
                if any("relative error" in p or "infinity" in p or "magnitude" in p for p in probs):
                    sig = "stream:number-accuracy"
                elif any("expected keys" in p for p in probs):
                    sig = "stream:key-with-nul"
                return (sig, "document %d: %s" % (i, probs[0]))
            # the next call starts where this one stopped
            pos = got
            # leading whitespace of the next part that was already consumed as separator is fine
            if i + 1 < len(case.meta["docs"]):
                nxt_start = sum(len(p) for p in case.meta["parts"][: i + 1])
                e2, u2, n2 = case.meta["docs"][i + 1]
                case.meta["docs"][i + 1] = (e2, u2 + (nxt_start - pos), n2)
        return None

    def feature(self, case, h):
        return case.line


# ================================================================================================ C13: typed extraction
INT_TYPES = [("i8", True, 8), ("u8", False, 8), ("i16", True, 16), ("u16", False, 16), ("i32", True, 32), ("u32", False, 32), ("i64", True, 64), ("u64", False, 64)]


def py_float32(x):
    """nearest binary32 of a python float (ties to even), as bits; overflow -> inf"""
    try:
        return gens.float_bits(x)
    except OverflowError:
        return 0xFF800000 if x < 0 else 0x7F800000


def int_to_double_bits(n):
    try:
        return gens.double_bits(float(n))
    except OverflowError:
        return gens.double_bits(float("-inf") if n < 0 else float("inf"))


def int_to_float_bits(n):
    # round-to-nearest-even in one step (not via double)
    if n == 0:
        return 0
    s = n < 0
    m = abs(n)
    e = m.bit_length() - 24
    if e > 0:
        q, r = m >> e, m & ((1 << e) - 1)
        half = 1 << (e - 1)
        if r > half or (r == half and q & 1):
            q += 1
        if q == 1 << 24:
            q >>= 1
            e += 1
    else:
        q, e = m << -e, e
    # q has 24 bits, value = q * 2^e
    ex = e + 127 + 23
    if ex >= 255:
        return 0xFF800000 if s else 0x7F800000
    return (0x80000000 if s else 0) | (ex << 23) | (q & 0x7FFFFF)


def canon_nan(h):
    """NaN payloads are not observable behaviour: print every NaN as 'nan'"""
    out = []
    for x in h.split(" "):
        if x.startswith("f=") and len(x) == 10 and gens.f32_value(int(x[2:], 16)) == "nan":
            x = "f=nan"
        elif x.startswith("d=") and len(x) == 18 and gens.f64_value(int(x[2:], 16)) == "nan":
            x = "d=nan"
        out.append(x)
    return " ".join(out)


class ConvSuite(Suite):
    name = "conv"

    def canon_h(self, case, h):
        return canon_nan(h)

    def canon_m(self, case, m):
        return canon_nan(m)

    def generate(self, rng, tier):
        cb = cfgbits(self.cfg)
        terms = []
        pows = [2 ** k for k in range(0, 65)]
        for p in pows:
            for dlt in (-2, -1, 0, 1, 2):
                v = p + dlt
                if 0 <= v < 2 ** 64:
                    terms.append("U%d" % v)
                if -2 ** 63 <= v < 2 ** 63:
                    terms.append("I%d" % v)
                if -2 ** 63 <= -v < 2 ** 63:
                    terms.append("I%d" % -v)
                # doubles and floats around the same magnitudes
                for x in (float(v), -float(v), float(v) + 0.5, -(float(v) + 0.5), float(v) - 0.5):
                    terms.append("d%016x" % gens.double_bits(x))
                    fb = py_float32(x)
                    terms.append("f%08x" % fb)
        # 64-bit integers next to a midpoint between two floats (double rounding through double would go wrong) and between two doubles
        for k in range(25, 64):
            for _ in range(6):
                m = rng.randrange(1, 2 ** 23, 2) if k >= 24 else 1
                base = 2 ** k + m * 2 ** (k - 24)
                for dlt in (-1, 0, 1, 2 ** max(0, k - 53), -(2 ** max(0, k - 53))):
                    v = base + dlt
                    if 0 <= v < 2 ** 64:
                        terms.append("U%d" % v)
                    if v < 2 ** 63:
                        terms.append("I%d" % v)
                        terms.append("I-%d" % v)
        for k in range(54, 64):
            for _ in range(4):
                m = rng.randrange(1, 2 ** 52, 2)
                base = 2 ** k + m * 2 ** (k - 53)
                for dlt in (-1, 0, 1):
                    v = base + dlt
                    if v < 2 ** 64:
                        terms.append("U%d" % v)
        for b in gens.BOUND_F32 + mpack.BOUNDARY_F32:
            for d in (-1, 0, 1):
                terms.append("f%08x" % ((b + d) % 2 ** 32))
        for b in gens.BOUND_F64 + mpack.BOUNDARY_F64:
            for d in (-1, 0, 1):
                terms.append("d%016x" % ((b + d) % 2 ** 64))
        n = getattr(self, "n", 8000 if tier == "quick" else 1000000)
        for _ in range(n):
            r = rng.random()
            if r < 0.25:
                terms.append("f%08x" % rng.getrandbits(32))
            elif r < 0.5:
                terms.append("d%016x" % rng.getrandbits(64))
            elif r < 0.6:
                # doubles with integral or half-integral values near type limits
                k = rng.choice([7, 8, 15, 16, 31, 32, 63, 64])
                x = float(2 ** k) * rng.choice([1, -1]) + rng.choice([-1.5, -1, -0.5, 0, 0.5, 1, 1.5, 1024, -1024, 2048])
                terms.append("d%016x" % gens.double_bits(x))
            elif r < 0.7:
                terms.append("U%d" % rng.getrandbits(rng.choice([8, 16, 31, 32, 33, 63, 64])))
            elif r < 0.8:
                terms.append("I%d" % (rng.getrandbits(rng.choice([7, 15, 31, 32, 62, 63])) * rng.choice([1, -1])))
            else:
                # numeric strings, stored by copy or by address
                txt = rng.choice([str(rng.choice(pows) + rng.choice([-1, 0, 1])), "-" + str(rng.choice(pows) + rng.choice([-1, 0, 1])),
                                  "%d.%d" % (rng.randrange(0, 70000), rng.randrange(0, 100)), "-%d.5" % rng.randrange(0, 300), "%de%d" % (rng.randrange(1, 99), rng.randrange(0, 20)),
                                  "0" * rng.randrange(0, 5) + str(rng.getrandbits(rng.choice([8, 32, 64]))), "abc", "", "1e400", "-1e400", "0x10", "12abc", " 12", "1" + "0" * rng.choice([30, 100, 400, 700])])
                terms.append(rng.choice("SL") + txt.encode().hex())
        for t in ["N", "T", "F", "[I1]", "{61:I1}", "R31"]:
            terms.append(t)
        cases = [Case("conv %d t:%s" % (cb, t), term=t) for t in terms]
        # "whatever their length": numeric strings with tens of thousands of digits whose written exponent brings the value back to 1.5 / 250 / infinity / 0
        for N in ((400, 33000, 40000) if tier == "quick" else (400, 20000, 32766, 32767, 32768, 33000, 40000, 65535, 65536, 70000, 90000)):
            longs = [("15" + "0" * N + "e-%d" % (N + 1), 1, 1.5), ("0." + "0" * N + "15e%d" % (N + 1), 1, 1.5), ("-25" + "0" * N + "e-%d" % (N - 1), -250, -250.0),
                     ("1" + "0" * N, 0, float("inf")), ("0." + "0" * N + "1", 0, 0.0)]
            for txt, iv, dv in longs:
                # a copied string cannot be longer than the string-length field allows (65535 by default): longer ones are given by address
                t = (rng.choice("SL") if len(txt) <= 65000 else "L") + txt.encode().hex()
                cases.append(Case("conv %d t:%s" % (cb, t), term=t, want_int=iv, want_double=dv))
        # every binary step of the powers-of-ten scaling: decimal exponents whose bits 0..8 are set one at a time and together (positive and negative), as strings
        for txt, dv in [("12345678e%d" % e, 12345678.0 * 10.0 ** e) for e in (1, 2, 4, 8, 16, 32, 64, 128, 129, 200, 255, 256, 290)] + \
                       [("12345678e-%d" % e, 12345678.0 / 10.0 ** e) for e in (1, 2, 4, 8, 16, 32, 64, 128, 129, 200, 255, 256, 300)] + \
                       [("17976931348623157e127", 1.7976931348623157e143), ("123456789" + "0" * 130, 1.23456789e138), ("0." + "0" * 140 + "25", 2.5e-141)]:
            iv = int(Fraction(txt.split("e")[0]) * Fraction(10) ** int(txt.split("e")[1])) if "e" in txt and abs(dv) < 2.0 ** 64 else 0
            t = rng.choice("SL") + txt.encode().hex()
            cases.append(Case("conv %d t:%s" % (cb, t), term=t, want_int=iv if abs(dv) < 2.0 ** 63 else 0, want_double=dv, tol=1e-13))
        # strings that are NOT numbers because of one byte next to the digits in the code table ('/' and ':' ... '?'): every arithmetic reading is 0
        for bad in "/:;<=>?":
            for txt in ("12%s30" % bad, "%s%s1" % (bad, bad), "7%s" % bad, "1e%s" % bad, "+%s1" % bad, "0.%s5" % bad, "%s" % bad, "1%s" % bad * 5):
                t = rng.choice("SL") + txt.encode().hex()
                cases.append(Case("conv %d t:%s" % (cb, t), term=t, not_a_number=True))
        return cases

    def oracle(self, case, h):
        o = Suite.oracle(self, case, h)
        if o:
            return (o[0] + (":linked-string" if case.meta["term"][0] == "L" else ""), o[1] + " on " + case.line[:80])
        if case.meta.get("not_a_number"):
            f0 = dict(x.split("=") for x in h.split(" ") if "=" in x)
            bad = [k for k in ("i8", "u8", "i16", "u16", "i32", "u32", "i64", "u64") if int(f0[k]) != 0] + [k for k in ("f", "d") if int(f0[k], 16) != 0]
            if bad:
                return ("conv:not-a-number", "the string %r is not a number but as<%s>() gives %s" % (bytes.fromhex(case.meta["term"][1:]), bad[0], f0[bad[0]]))
            return None
        if "ALIAS-MISMATCH" in h:
            return ("conv:alias", "long/int/short/char spellings disagree with the fixed-width type of the same size: " + case.line)
        f = dict(x.split("=") for x in h.split(" ") if "=" in x)
        t = case.meta["term"]
        kind = t[0]
        if "want_int" in case.meta:
            iv, dv = case.meta["want_int"], case.meta["want_double"]
            got_d = struct.unpack("<d", struct.pack("<Q", int(f["d"], 16)))[0]
            okd = (got_d == dv) if dv in (0.0, float("inf")) else abs(got_d - dv) <= case.meta.get("tol", 1e-12) * abs(dv)
            if not okd:
                return ("conv:long-string", "as<double>() on a numeric string of %d characters denoting %r gives %r" % (len(t) // 2, dv, got_d))
            for name, (lo, hi) in {"i8": (-128, 127), "u8": (0, 255), "i32": (-2 ** 31, 2 ** 31 - 1), "u64": (0, 2 ** 64 - 1), "i64": (-2 ** 63, 2 ** 63 - 1)}.items():
                want = iv if lo <= iv <= hi else 0
                if int(f[name]) != want:
                    return ("conv:long-string", "as<%s>() on a numeric string of %d characters denoting %r gives %s, expected %d" % (name, len(t) // 2, dv, f[name], want))
            return None
        if kind in "UI":
            v = Fraction(int(t[1:]))
            stored_int = True
        elif kind == "f":
            v = gens.f32_value(int(t[1:], 16))
            stored_int = False
        elif kind == "d":
            v = gens.f64_value(int(t[1:], 16))
            stored_int = False
        elif kind in "SL":
            txt = bytes.fromhex(t[1:]).decode("latin-1")
            if not re.fullmatch(r"-?[0-9]+", txt) or len(txt) > 19:
                return None           # non-integer strings: value is only known up to the parse accuracy (C12)
            v = Fraction(int(txt))
            stored_int = False
        else:
            return None
        isb = f["is"]
        for i, (name, signed, bits) in enumerate(INT_TYPES):
            lo = -(1 << (bits - 1)) if signed else 0
            hi = (1 << (bits - 1)) - 1 if signed else (1 << bits) - 1
            if v in ("nan", "inf", "-inf"):
                want = 0
            elif lo <= v <= hi:
                want = int(v) if v >= 0 else -int(-v)      # truncation toward zero
            else:
                want = 0
            got = int(f[name])
            if got != want:
                return ("conv:as-int", "as<%s>() of %s is %d, expected %d" % (name, t, got, want))
            if kind in "UIfd":
                want_is = stored_int and lo <= v <= hi
                if (isb[i] == "1") != want_is:
                    return ("conv:is-int", "is<%s>() of %s is %s" % (name, t, isb[i]))
        # floating targets: nearest representable
        if kind in "UI":
            n = int(t[1:])
            wd, wf = int_to_double_bits(n), int_to_float_bits(n)
        elif kind == "f":
            b = int(t[1:], 16)
            wf = b
            wd = gens.double_bits(struct.unpack("<f", struct.pack("<I", b))[0])
        elif kind == "d":
            b = int(t[1:], 16)
            wd = b
            x = struct.unpack("<d", struct.pack("<Q", b))[0]
            wf = py_float32(x)
        else:
            return None
        gd, gf = int(f["d"], 16), int(f["f"], 16)
        nan_d = gens.f64_value(wd) == "nan"
        if (gens.f64_value(gd) == "nan") != nan_d or (not nan_d and gd != wd):
            return ("conv:as-double", "as<double>() of %s is %016x, nearest representable is %016x" % (t, gd, wd))
        nan_f = gens.f32_value(wf) == "nan"
        if (gens.f32_value(gf) == "nan") != nan_f or (not nan_f and gf != wf):
            return ("conv:as-float", "as<float>() of %s is %08x, nearest representable is %08x" % (t, gf, wf))
        return None

    def feature(self, case, h):
        return case.meta["term"]


# ================================================================================================ C12: numbers through text
class NumSuite(Suite):
    name = "num"

    def canon_h(self, case, h):
        return canon_nan(Suite.canon_h(self, case, h))

    def canon_m(self, case, m):
        return canon_nan(m)

    def generate(self, rng, tier):
        cb = cfgbits(self.cfg)
        n = getattr(self, "n", 12000 if tier == "quick" else 1500000)
        cases = []
        lits = []
        for k in [31, 32, 53, 63, 64]:
            for d in (-2, -1, 0, 1, 2):
                lits.append(str(2 ** k + d))
                lits.append("-" + str(2 ** k + d))
                lits.append("000" + str(2 ** k + d))
        for e in range(-330, 331, 3):
            lits += ["1e%d" % e, "9.999999e%d" % e, "1.0000001e%d" % e, "123456789012345678e%d" % e, "4.9406564584124654e%d" % e]
        for _ in range(n):
            r = rng.random()
            if r < 0.5:
                exp, txt = gens.gen_number(rng)
                lits.append(txt.decode())
            elif r < 0.8:
                # long literals (only reachable through as<T>() on a string)
                nd = rng.choice([20, 40, 64, 100, 300, 800, 2000] if tier == "quick" else [20, 64, 300, 1000, 5000])
                ip = "".join(rng.choice("0123456789") for _ in range(rng.randrange(1, nd)))
                fp = "".join(rng.choice("0123456789") for _ in range(rng.randrange(0, nd)))
                ex = rng.choice(["", "e%d" % rng.randrange(-400, 400), "E+%d" % rng.randrange(0, 400), "e-%d" % rng.randrange(0, 900)])
                lits.append(rng.choice(["", "-", "+"]) + ip + ("." + fp if fp and rng.random() < 0.7 else "") + ex)
            else:
                # near the edges of the range
                m = rng.choice(["1", "9.99", "1.7976931348623157", "2.2250738585072014", "4.9", "3.4028235", "1.17549435", "0.00001", "123456789.123456789"])
                lits.append(rng.choice(["", "-"]) + m + "e" + str(rng.choice([300, 301, 305, 307, 308, 309, -300, -301, -307, -308, -310, -320, -324, -325, 37, 38, 39, -37, -38, -39, -45, -46])))
        for s in lits:
            cases.append(Case("conv %d t:%s%s" % (cb, rng.choice("SL"), s.encode().hex()), kind="parse", lit=s))
        # the same literals on the document path (deserializeJson stores the number; up to 63 characters), RFC spellings only
        for s in lits:
            if len(s) <= 63 and re.fullmatch(r"-?(0|[1-9][0-9]*)(\.[0-9]+)?([eE][+-]?[0-9]+)?", s):
                cases.append(Case("jsonde %d 0 10 %s" % (cb, s.encode().hex()), kind="docparse", lit=s))
        for k in range(1, 21):           # integers of every length, around the powers of ten and of two that a digit-count shortcut could confuse
            for v in (10 ** k - 1, 10 ** (k - 1), 10 ** k // 2 + 7, 4 * 10 ** (k - 1) + 294967296 % (10 ** (k - 1) or 1)):
                for sgn in ("", "-"):
                    if len(str(v)) <= 20 and (v < 2 ** 64 if not sgn else v <= 2 ** 63):
                        cases.append(Case("jsonde %d 0 10 %s" % (cb, (sgn + str(v)).encode().hex()), kind="docparse", lit=sgn + str(v)))
        for _ in range(getattr(self, "nint", 3000 if tier == "quick" else 300000)):
            nd = rng.randrange(1, 21)
            v = rng.randrange(10 ** (nd - 1), 10 ** nd) if nd > 1 else rng.randrange(0, 10)
            sgn = rng.choice(["", "", "-"])
            if (v < 2 ** 64 if not sgn else v <= 2 ** 63):
                cases.append(Case("jsonde %d 0 10 %s" % (cb, (sgn + str(v)).encode().hex()), kind="docparse", lit=sgn + str(v)))
        m = getattr(self, "nprint", 20000 if tier == "quick" else 3000000)
        for _ in range(m):
            r = rng.random()
            if r < 0.45:
                cases.append(Case("jsonser %d t:f%08x" % (cb, rng.getrandbits(32) if rng.random() < 0.8 else rng.choice(gens.BOUND_F32 + mpack.BOUNDARY_F32)), kind="print"))
            elif r < 0.7:
                cases.append(Case("jsonser %d t:d%016x" % (cb, rng.getrandbits(64)), kind="print"))
            elif r < 0.85:
                x = rng.choice([1, -1]) * rng.random() * 10.0 ** rng.randrange(-310, 309)
                cases.append(Case("jsonser %d t:d%016x" % (cb, gens.double_bits(x)), kind="print"))
            elif r < 0.93:
                k = rng.randrange(0, 64)
                x = float(2 ** k + rng.choice([-1, 0, 1])) * rng.choice([1, -1, 0.5, 0.25])
                cases.append(Case("jsonser %d t:d%016x" % (cb, gens.double_bits(x)), kind="print"))
            else:
                x = 10.0 ** rng.randrange(-300, 300) * rng.choice([1, 0.9999999999, 1.0000000001, 9.9999999995, 0.99999995])
                cases.append(Case("jsonser %d t:d%016x" % (cb, gens.double_bits(x)), kind="print"))
        for v in [0, 1, 9, 10, 2 ** 31, 2 ** 32, 2 ** 53, 2 ** 63 - 1, 2 ** 63, 2 ** 64 - 1] + [rng.getrandbits(64) for _ in range(300)]:
            cases.append(Case("jsonser %d t:U%d" % (cb, v), kind="print"))
            if v < 2 ** 63:
                cases.append(Case("jsonser %d t:I-%d" % (cb, v), kind="print"))
        return cases

    def oracle(self, case, h):
        o = Suite.oracle(self, case, h)
        if o:
            return (o[0] + (":linked-string" if " t:L" in case.line else ""), o[1] + " on " + case.line[:100])
        if case.meta["kind"] == "parse":
            f = dict(x.split("=") for x in h.split(" ") if "=" in x)
            s = case.meta["lit"]
            v = gens.lit_value(s)
            sig = gens.sig_digits(s)
            p = gens.check_parsed_number(("Q", v, sig), ("d", int(f["d"], 16)))
            if p:
                return ("num:parse-double", "as<double>() on \"%s\": %s" % (s[:60] + ("..." if len(s) > 60 else ""), p))
            if re.fullmatch(r"[+-]?[0-9]+", s):
                n = int(s)
                if 0 <= n < 2 ** 64 and int(f["u64"]) != n:
                    return ("num:parse-uint", "as<uint64_t>() on \"%s\" is %s" % (s[:40], f["u64"]))
                if -2 ** 63 <= n < 2 ** 63 and int(f["i64"]) != n:
                    return ("num:parse-int", "as<int64_t>() on \"%s\" is %s" % (s[:40], f["i64"]))
            return None
        if case.meta["kind"] == "docparse":
            f = h.split(" ")
            s = case.meta["lit"]
            if f[0] != "Ok":
                return ("num:doc-rejected", "deserializeJson of the number %s gave %s" % (s[:60], f[0]))
            got = parse_tree(f[1])
            if re.fullmatch(r"-?[0-9]+", s) and -2 ** 63 <= int(s) < 2 ** 64:
                if got[0] not in "UI" or got[1] != int(s):
                    return ("num:doc-int", "the integer literal %s was stored as %s" % (s, f[1][:40]))
                return None
            if got[0] not in "fd":
                return ("num:doc-kind", "the literal %s was stored as %s" % (s[:60], f[1][:40]))
            p = gens.check_parsed_number(("Q", gens.lit_value(s), gens.sig_digits(s)), got)
            if p:
                return ("num:doc-float", "deserializeJson of %s: %s" % (s[:60], p))
            return None
        f = h.split(" ")
        stored = parse_tree(f[1])
        text = bytes.fromhex(f[2]) if f[2] != "-" else b""
        try:
            parsed = gens.py_json_parse(text)
        except Exception as e:
            return ("num:print-not-json", "number printed as %r" % text)
        p = check_printed_number(stored, parsed)
        if p:
            sig = "num:print-float" if stored[0] == "f" else ("num:print-double" if stored[0] == "d" else "num:print-int")
            if stored[0] == "f" and case.line.split("t:")[1][0] == "d":
                sig = "num:print-double-stored-as-float"
            return (sig, p + " (text %r)" % text)
        if stored[0] in "UI" and text != str(stored[1]).encode():
            return ("num:print-int", "integer %d printed as %r" % (stored[1], text))
        return None

    def feature(self, case, h):
        return case.line if len(case.line) > 20 else None


# ================================================================================================ C18: comparisons
class CmpSuite(Suite):
    name = "cmp"

    POOL = None

    def pool(self):
        vals = ["N", "?", "T", "F"]
        for v in [0, 1, 2, 127, 128, 255, 2 ** 31 - 1, 2 ** 31, 2 ** 32 - 1, 2 ** 32, 2 ** 53, 2 ** 53 + 1, 2 ** 63 - 1, 2 ** 63, 2 ** 64 - 1]:
            vals.append("U%d" % v)
            if v < 2 ** 63:
                vals.append("I%d" % v)
                vals.append("I-%d" % v)
        vals.append("I-9223372036854775808")
        for b in [0, 0x80000000, 0x3F800000, 0xBF800000, 0x3FC00000, 0x4F000000, 0x4F800000, 0x5F000000, 0x5F800000, 0x7F800000, 0xFF800000, 0x7FC00000, 0x00000001, 0x4B800000, 0x40000000]:
            vals.append("f%08x" % b)
        for b in [0x3FF0000000000001, 0x43E0000000000000, 0x43F0000000000000, 0x4340000000000000, 0x4340000000000001, 0x7FF8000000000000, 0x3FB999999999999A, 0x7FEFFFFFFFFFFFFF,
                  0xC3E0000000000000, 0x41DFFFFFFFC00000, 0x41E0000000000000]:
            vals.append("d%016x" % b)
        for s in [b"", b"a", b"ab", b"abc", b"b", b"\x80", b"a\x80", b"a\x00", b"a\x00b", b"1", b"\xff", b"A"]:
            vals.append("S" + s.hex())
            if b"\x00" not in s:
                vals.append("L" + s.hex())
        for r in [b"1", b"[1]", b"ab", b"abc", b"", b"\x80"]:
            vals.append("R" + r.hex())
        vals += ["[]", "[I1]", "[U1]", "[I1,I2]", "[I2,I1]", "[f3f800000]", "[[I1]]", "[N]", "[S61]", "[L61]", "[I1,I2,I3]",
                 "{}", "{61:I1}", "{61:U1}", "{61:I1,62:I2}", "{62:I2,61:I1}", "{61:I1,62:I3}", "{61:N}", "{62:I1}", "{61:[I1]}", "{61:{62:I2}}", "{l61:I1}", "{61:f3f800000,62:I2}"]
        # objects with repeated keys are only reachable through MessagePack
        vals += ["m:82a16101a16101", "m:82a16101a16202", "m:82a16101a16102", "m:83a16101a16101a16202"]
        return vals

    def generate(self, rng, tier):
        pool = self.pool()
        if self.cfg.get("USE_DOUBLE", 1) == 0:
            # doubles are stored as floats in this build: keep them out of the documents (the comparison itself is still made in double),
            # and add integers that a float cannot hold exactly next to the floats nearest to them
            pool = [x for x in pool if "d" not in re.sub(r"m:[0-9a-f]*", "", x) or not re.search(r"d[0-9a-f]{16}", x)]
            pool += ["U16777217", "U16777216", "f4b800000", "U4294967295", "f4f800000", "I-16777217", "fcb800000", "U1000000001", "f4e6e6b28"]

        def spec(x):
            return x if x.startswith("m:") or x == "?" else "t:" + x
        cases = []
        for a in pool:
            for b in pool:
                cases.append(Case("cmp %s %s" % (spec(a), spec(b)), kind="vv", a=a, b=b))
        scal = ["i64:0", "i64:1", "i64:-1", "i64:9223372036854775807", "i64:-9223372036854775808", "u64:0", "u64:1", "u64:18446744073709551615", "u64:9223372036854775808",
                "i32:-1", "i32:1", "i32:2147483647", "u32:4294967295", "u32:1", "i16:-1", "u16:65535", "b:1", "b:0", "d:3ff0000000000000", "d:7ff8000000000000", "d:43e0000000000000",
                "d:43f0000000000000", "f:3f800000", "f:4f800000", "s:61", "s:6162", "s:", "s:610062", "cs:61", "cs:", "s:80"]
        for a in pool:
            if a == "?":
                continue
            for s in scal:
                cases.append(Case("cmps %s %s" % (spec(a), s), kind="vs", a=a, s=s))
            if a[0] in "SL":
                # the variant's own bytes seen through a view that shares its address (every prefix length): equal only at the full length
                body = bytes.fromhex(a[1:])
                if a[0] == "L":
                    body = body.split(b"\x00")[0]
                for k in range(0, len(body) + 1):
                    for kd in ("pv", "pj"):
                        cases.append(Case("cmps %s %s:%d" % (spec(a), kd, k), mline="cmps %s s:%s" % (spec(a), body[:k].hex()), kind="vs", a=a, s="s:" + body[:k].hex()))
        return cases

    @staticmethod
    def term_tree(x):
        if x == "?":
            return ("N",)
        if x.startswith("m:"):
            mv, _ = mpack.decode(bytes.fromhex(x[2:]))

            def conv(v):
                k = v[0]
                if k == "int":
                    return ("I", v[1])
                if k == "str":
                    return ("S", v[1])
                if k == "map":
                    return ("O", [(kk[1], conv(vv)) for kk, vv in v[1]])
                if k == "arr":
                    return ("A", [conv(z) for z in v[1]])
                return ("N",)
            return conv(mv)
        return gens.stored_tree(gens.parse_term(x))

    @staticmethod
    def as_double(t):
        """numeric value as the double the library would compare (ints rounded to nearest)"""
        if t[0] in "UI":
            return gens.f64_value(int_to_double_bits(t[1]))
        return num_value(t)

    @classmethod
    def expect_eq(cls, a, b):
        """True / False / None (= the property does not say)"""
        ka, kb = a[0], b[0]
        numa, numb = ka in "UIfd", kb in "UIfd"
        if numa and numb:
            if ka in "UI" and kb in "UI":
                return a[1] == b[1]
            x, y = cls.as_double(a), cls.as_double(b)
            if x == "nan" or y == "nan":
                return False
            return x == y
        if ka == "B" or kb == "B":
            if ka == kb:
                return a[1] == b[1]
            return None if (numa or numb) else False
        if ka != kb:
            return False
        if ka == "N":
            return True
        if ka in "SR":
            return a[1] == b[1]
        if ka == "A":
            if len(a[1]) != len(b[1]):
                return False
            res = True
            for x, y in zip(a[1], b[1]):
                e = cls.expect_eq(x, y)
                if e is False:
                    return False
                if e is None:
                    res = None
            return res
        if ka == "O":
            keys_a = [k for k, _ in a[1]]
            keys_b = [k for k, _ in b[1]]
            if len(set(keys_a)) != len(keys_a) or len(set(keys_b)) != len(keys_b):
                return None                       # repeated keys: no plain meaning
            if sorted(keys_a) != sorted(keys_b):
                return False
            db = dict(b[1])
            res = True
            for k, x in a[1]:
                e = cls.expect_eq(x, db[k])
                if e is False:
                    return False
                if e is None:
                    res = None
            return res
        return None

    def oracle(self, case, h):
        o = Suite.oracle(self, case, h)
        if o:
            return (o[0], o[1] + " on " + case.line[:100])
        f = h.split(" ")
        ab = [c == "1" for c in f[0]]
        ba = [c == "1" for c in f[1]]
        eq, ne, lt, le, gt, ge = ab
        eq2, ne2, lt2, le2, gt2, ge2 = ba
        what = case.line[:120]
        dup = "m:8" in case.line
        if eq != eq2 or ne != ne2:
            return ("cmp:eq-asymmetric" + (":repeated-keys" if dup else ""), "a==b is %s but b==a is %s for %s" % (eq, eq2, what))
        if ne == eq:
            return ("cmp:ne-not-negation", "a!=b is %s while a==b is %s for %s" % (ne, eq, what))
        if lt != gt2 or gt != lt2:
            return ("cmp:lt-gt-asymmetric", "a<b=%s b>a=%s a>b=%s b<a=%s for %s" % (lt, gt2, gt, lt2, what))
        if le != (lt or eq) or ge != (gt or eq) or le2 != (lt2 or eq2) or ge2 != (gt2 or eq2):
            return ("cmp:le-ge-incoherent", "<= / >= disagree with < == > for %s: %s %s" % (what, f[0], f[1]))
        if (lt + eq + gt) > 1:
            return ("cmp:not-exclusive", "more than one of < == > holds for %s" % what)
        if case.meta["kind"] == "vv":
            a, b = self.term_tree(case.meta["a"]), self.term_tree(case.meta["b"])
            e = self.expect_eq(a, b)
            if e is not None and e != eq:
                sig = "cmp:wrong-equality"
                x, y = (num_value(a), num_value(b))
                if "nan" in (x, y):
                    sig += ":nan"
                return (sig, "a==b is %s, by value it is %s, for %s" % (eq, e, what))
            if a[0] in "UIfd" and b[0] in "UIfd":
                if a[0] in "UI" and b[0] in "UI":
                    x, y = a[1], b[1]
                else:
                    x, y = self.as_double(a), self.as_double(b)
                if "nan" not in (x, y):
                    inf = {"inf": 1, "-inf": -1}
                    kx = (inf.get(x, 0), x if x not in inf else 0)
                    ky = (inf.get(y, 0), y if y not in inf else 0)
                    if (kx < ky) != lt or (kx > ky) != gt:
                        return ("cmp:wrong-order", "a<b=%s a>b=%s but by value %s for %s" % (lt, gt, "a<b" if kx < ky else ("a>b" if kx > ky else "a==b"), what))
        else:
            a = self.term_tree(case.meta["a"])
            kind, val = case.meta["s"].split(":")
            sv = None
            if kind in ("i64", "i32", "i16", "u64", "u32", "u16"):
                sv = ("I" if kind[0] == "i" else "U", int(val))
            elif kind == "d":
                sv = ("d", int(val, 16))
            elif kind == "f":
                sv = ("f", int(val, 16))
            elif kind in ("s", "cs"):
                sv = ("S", bytes.fromhex(val))
            if sv is not None and not (kind == "cs" and b"\x00" in sv[1]):
                e = self.expect_eq(a, sv)
                if e is not None and e != eq:
                    sig = "cmp:scalar-wrong-equality"
                    if "nan" in (num_value(a), num_value(sv)):
                        sig += ":nan"
                    elif kind in ("i32", "i16") and a[0] == "U":
                        sig += ":narrow-signed-vs-unsigned"
                    return (sig, "variant == scalar is %s, by value %s, for %s" % (eq, e, what))
                if a[0] in "UIfd" and sv[0] in "UIfd":
                    if a[0] in "UI" and sv[0] in "UI":
                        x, y = a[1], sv[1]
                    else:
                        x, y = self.as_double(a), self.as_double(sv)
                    if "nan" not in (x, y):
                        inf = {"inf": 1, "-inf": -1}
                        kx = (inf.get(x, 0), x if x not in inf else 0)
                        ky = (inf.get(y, 0), y if y not in inf else 0)
                        if (kx < ky) != lt or (kx > ky) != gt:
                            sig = "cmp:scalar-wrong-order"
                            if kind in ("i32", "i16") and a[0] == "U":
                                sig += ":narrow-signed-vs-unsigned"
                            return (sig, "variant<scalar=%s variant>scalar=%s but by value %s for %s" % (lt, gt, "less" if kx < ky else ("greater" if kx > ky else "equal"), what))
        return None

    def feature(self, case, h):
        return case.line


# ================================================================================================ C04/C05/C06/C14/C19: API histories
import hist as H
import random as _random

GEOMETRIES = {
    "default": {},
    "tiny1": {"POOL_CAPACITY": 2, "INITIAL_POOL_COUNT": 1, "SLOT_ID_SIZE": 1},
    "tiny2": {"POOL_CAPACITY": 3, "INITIAL_POOL_COUNT": 1, "SLOT_ID_SIZE": 2},
    "id1": {"POOL_CAPACITY": 16, "INITIAL_POOL_COUNT": 4, "SLOT_ID_SIZE": 1},
    "id1c10": {"POOL_CAPACITY": 10, "INITIAL_POOL_COUNT": 1, "SLOT_ID_SIZE": 1},
    "id1i3": {"POOL_CAPACITY": 4, "INITIAL_POOL_COUNT": 3, "SLOT_ID_SIZE": 1},
    "len1": {"POOL_CAPACITY": 128, "INITIAL_POOL_COUNT": 2, "SLOT_ID_SIZE": 2, "STRING_LENGTH_SIZE": 1},
    # more inline pool entries than the id range can address (maxPools = 2 < INITIAL_POOL_COUNT = 4)
    "id1c128": {"POOL_CAPACITY": 128, "INITIAL_POOL_COUNT": 4, "SLOT_ID_SIZE": 1},
    "len4": {"POOL_CAPACITY": 256, "INITIAL_POOL_COUNT": 4, "SLOT_ID_SIZE": 4, "STRING_LENGTH_SIZE": 4},
    # 4-byte string lengths with 2-byte slot ids (the default of 32-bit targets is 2-byte ids): strings can be longer than the number of slots
    "len4id2": {"POOL_CAPACITY": 256, "INITIAL_POOL_COUNT": 4, "SLOT_ID_SIZE": 2, "STRING_LENGTH_SIZE": 4},
    # no 64-bit integer storage: doubles are then the only users of extension slots (histories restricted to 32-bit integers)
    "nolonglong": {"USE_LONG_LONG": 0, "POOL_CAPACITY": 3, "INITIAL_POOL_COUNT": 1, "SLOT_ID_SIZE": 2},
}


def geo_of(cfg):
    """(poolCap, initPools, idBytes, stringOverhead) of a harness configuration on this 64-bit target"""
    cap = cfg.get("POOL_CAPACITY", 256)
    init = cfg.get("INITIAL_POOL_COUNT", 4)
    idb = cfg.get("SLOT_ID_SIZE", 4)
    lenb = cfg.get("STRING_LENGTH_SIZE", 2)
    # struct StringNode { StringNode* next; references_type references; length_type length; char data[1]; }  sizeForLength(0) = offsetof(data) + 1
    off = 8 + idb
    off = (off + lenb - 1) // lenb * lenb
    off += lenb
    return (cap, init, idb, off + 1, 2 ** (8 * lenb) - 1)


class HistSuite(Suite):
    """C04: non-aliasing API histories; observations predicted by the plain ordered-tree machine (tools/hist.py) and by the slot-level Lean model"""
    name = "hist"

    def group_starts(self, cases):
        return {i for i, c in enumerate(cases) if c.line == "reset"}

    def histories(self, rng, tier):
        nh = getattr(self, "nh", 60 if tier == "quick" else 3000)
        nops = getattr(self, "nops", 60)
        for _ in range(nh):
            yield H.gen_history(rng, rng.choice([nops // 2, nops, nops * 2]), geo_of(self.cfg), strkind=getattr(self, "strkind", None),
                                small_ints=self.cfg.get("USE_LONG_LONG", 1) == 0)

    def generate(self, rng, tier):
        cases = []
        for ops, exp in self.histories(rng, tier):
            for o, e in zip(ops, exp):
                cases.append(Case(o, exp=e))
        return cases

    def canon_h(self, case, h):
        return canon_nan(h)

    def canon_m(self, case, m):
        return canon_nan(m)

    def oracle(self, case, h):
        o = Suite.oracle(self, case, h)
        if o:
            return (o[0], o[1] + " at '%s'" % case.line[:80])
        if "ALLOCATOR-MISUSE" in h:
            return ("hist:allocator-misuse", "a block was released twice or through the wrong allocator at '%s'" % case.line[:80])
        if "NOT-NUL-TERMINATED" in h or "CSTR-MISMATCH" in h:
            return ("hist:cstr", "as<const char*>() inconsistent at '%s': %s" % (case.line[:60], h[:100]))
        body, _, log = h.partition("|")
        op, _, out = body.partition(" ")
        e = case.meta.get("exp")
        if e is not None and out.strip() != e.strip():
            kind = "observation" if op == "obs" else ("ledger" if op == "ledger" else "result")
            return ("hist:%s" % kind, "after '%s' the library shows '%s', the ordered-tree model predicts '%s'" % (case.line[:80], out.strip()[:200], e.strip()[:200]))
        if op in ("obs", "obsx", "hser", "ledger") and log.strip():
            return ("hist:observer-allocates", "read-only operation '%s' called the allocator: %s" % (case.line[:60], log[:80]))
        return None

    def feature(self, case, h):
        return (case.line, h[:60]) if case.line.split(" ")[0] not in ("reset", "geo", "obs") else None


class FaultSuite(HistSuite):
    """C05: the same histories with allocator failures injected (single failures at every early position, fail-from-k, random subsets)"""
    name = "faults"

    def generate(self, rng, tier):
        import ajlib
        cases = []
        nh = getattr(self, "nh", 150 if tier == "quick" else 6000)
        sess = H.ModelSession(ajlib.DRIVER)
        try:
            for _ in range(nh):
                ops = H.gen_fault_history(rng, rng.choice([20, 40, 70]), geo_of(self.cfg), sess)
                for o in ops:
                    cases.append(Case(o, exp=None))
        finally:
            sess.close()
        return cases

    def oracle(self, case, h):
        o = Suite.oracle(self, case, h)
        if o:
            return (o[0], o[1] + " at '%s' (under an allocation-failure schedule)" % case.line[:80])
        if "ALLOCATOR-MISUSE" in h:
            return ("faults:allocator-misuse", "a block was released twice or through the wrong allocator at '%s'" % case.line[:80])
        body, _, log = h.partition("|")
        op, _, out = body.partition(" ")
        if op == "ledger" and out.strip() != "L0=0 L1=0 L2=0":
            return ("faults:leak", "after clear() of all documents the allocators still hold blocks: " + out)
        if op in ("obs", "obsx", "hser", "ledger") and log.strip():
            return ("faults:observer-allocates", "read-only operation '%s' called the allocator" % case.line[:60])
        return None

    def post(self, cases, ho):
        """failure is reported and stays local: an operation during which an allocation failed sets overflowed() of that document,
        a set/add that failed returns false, and documents not touched by the operation are unchanged"""
        out = []
        last_obs = None
        pending = None
        for c, h in zip(cases, ho):
            if is_crash(h):
                last_obs = None
                pending = None
                continue
            body, _, log = h.partition("|")
            op, _, res = body.partition(" ")
            if op == "reset":
                last_obs = None
                pending = None
                continue
            if op == "obs":
                docs = [x.strip() for x in res.split(";")[:3]]
                if pending is not None and last_obs is not None:
                    pc, plog, pres = pending
                    failed_allocs = {int(m) for m in re.findall(r"a(\d):[AR]\d+!", plog)}
                    for d in failed_allocs:
                        if " o=1" not in docs[d] and pc.line.split(" ")[0] not in ("cleardoc", "copydoc", "swapdoc"):
                            out.append(("faults:not-reported", "an allocation of document %d failed during '%s' but overflowed() is false afterwards" % (d, pc.line[:60]), pc))
                    touched = {int(m) for m in re.findall(r"a(\d):", plog)}
                    pop = pc.line.split(" ")
                    if pop[0] in ("copydoc", "swapdoc"):
                        touched |= {int(pop[1]), int(pop[2])}
                    if pop[0] == "cleardoc":
                        touched.add(int(pop[1]))
                    if pop[0] not in ("root", "failat", "failfrom", "nofail") and len(touched) <= 1 and failed_allocs:
                        for d in range(3):
                            # a document whose allocator saw no call and that is not an operand cannot have changed
                            if d not in touched and self.strip_o(docs[d]) != self.strip_o(last_obs[d]) and not self.may_target(pc, d):
                                out.append(("faults:collateral", "document %d changed during '%s' although the failing operation does not target it" % (d, pc.line[:60]), pc))
                last_obs = docs
                pending = None
                continue
            if op in ("obsx", "ledger", "hser", "geo", "failat", "failfrom", "nofail"):
                continue
            pending = (c, log, res)
        return out

    @staticmethod
    def strip_o(s):
        return re.sub(r" o=\d", "", s)

    @staticmethod
    def may_target(case, d):
        return True


class PairKeySuite(Suite):
    """C14: members copied by hand through the iteration API (`for (JsonPair kv : src) dst[kv.key()] = kv.value();`) for every kind of key source, keys with an embedded
    NUL included; then the source document is destroyed and its blocks are recycled. Judged on the implementation: the destination equals the source before, and still after"""
    name = "pairkey"
    uses_driver = False

    def generate(self, rng, tier):
        cases = []
        keys = [b"k", b"key", b"", b"a\x00b", b"\x00", b"x" * 40, b"\xc3\xa9", b"first", b"last\x00"]
        vals = [b"v", b"", b"value with\x00nul", b"y" * 50]
        for kk in ("sc", "sv", "sp", "sj", "sjl"):
            for key in keys:
                if kk in ("sp", "sjl") and b"\x00" in key:
                    continue          # zero-terminated sources cannot carry a NUL
                for v in (vals if tier == "thorough" else vals[:3]):
                    cases.append(Case("pairkey %s %s %s" % (kk, key.hex() or "-", v.hex() or "-"), kk=kk, key=key))
        return cases

    def compare(self, case, h, m):
        return None

    def oracle(self, case, h):
        o = Suite.oracle(self, case, h)
        if o:
            return o
        f = h.split(" ")
        if len(f) != 3:
            return ("pairkey:output", "unexpected output %r" % h[:80])
        if f[1] != f[0]:
            return ("pairkey:copy-differs", "copying the members one by one through JsonPair gave %s from %s (%s)" % (f[1][:80], f[0][:80], case.line[:60]))
        if f[2] != f[1]:
            return ("pairkey:depends-on-source", "after the source was destroyed the copy reads %s, it was %s (%s)" % (f[2][:80], f[1][:80], case.line[:60]))
        return None

    def feature(self, case, h):
        return case.line


class StringKindSuite(HistSuite):
    """C14: the same history executed with every string source kind must give the same observations"""
    name = "strkind"

    def generate(self, rng, tier):
        cases = []
        nh = getattr(self, "nh", 25 if tier == "quick" else 800)
        for _ in range(nh):
            seed = rng.getrandbits(40)
            nul_ok = rng.random() < 0.5
            # zero-terminated kinds (char*, linked const char*) cannot carry a NUL: in histories with NUL bytes those strings go through std::string
            for k in ["sc", "sv", "sva", "sp", "sj", "sjl"]:
                r2 = _random.Random(seed)
                ops, exp = H.gen_history(r2, 50, geo_of(self.cfg), strkind=k, nul_ok=nul_ok)
                for o, e in zip(ops, exp):
                    f = o.split(" ")
                    if f[0] in ("mem", "memw", "setm", "remk"):
                        # the key is passed through the same source kind (harness only: the model has one kind of key)
                        key = bytes.fromhex(f[{"mem": 3, "memw": 3, "setm": 2, "remk": 2}[f[0]]].replace("-", ""))
                        kk = "sc" if (k in ("sp", "sjl") and b"\x00" in key) else k
                        cases.append(Case(o + " " + kk, exp=e, kind=k, seed=seed))
                    else:
                        cases.append(Case(o, exp=e, kind=k, seed=seed))
        return cases

    def post(self, cases, ho):
        out = []
        by = {}
        # group outputs by (seed, position)
        pos = {}
        for c, h in zip(cases, ho):
            if is_crash(h) or "seed" not in c.meta:
                continue
            key = (c.meta["seed"], c.meta["kind"])
            pos[key] = pos.get(key, 0) + 1
            k2 = (c.meta["seed"], pos[key])
            body = h.partition("|")[0]
            if c.line.split(" ")[0] not in ("obs", "obsx"):
                continue
            if k2 in by and by[k2][0] != body:
                out.append(("strkind:observable", "string source kind %s vs %s changes an observation at '%s': '%s' vs '%s'" % (by[k2][1], c.meta["kind"], c.line[:40], by[k2][0][:120], body[:120]), c))
            by.setdefault(k2, (body, c.meta["kind"]))
        return out



class DeserShareSuite(HistSuite):
    """C14 / C05: a key or string read by a deserializer is shared with an equal copied string that is already in the document; every
    combination of pool fill level and allocation-failure position around the insertion is enumerated (tiny pools), so that the
    window 'key slot obtained, value slot refused' and its neighbours are all visited. Observations and allocator log vs the model;
    the other user of the string must stay intact."""
    name = "desershare"

    def generate(self, rng, tier):
        geo = geo_of(self.cfg)
        cases = []
        inputs = [("j", b'{"k":1}'), ("j", b'{"x":"k"}'), ("j", b'["k","k"]'), ("j", b'{"k":{"k":"k"}}'), ("m", bytes.fromhex("81a16b01")), ("m", bytes.fromhex("92a16ba16b")), ("m", bytes.fromhex("81a16b81a16ba16b"))]
        for fill in range(0, 2 * geo[0] + 2):
            for fk in range(0, 6):
                for fmt, data in inputs:
                    for linked in (False, True):
                        ops = ["reset", "geo %d %d %d %d %d" % geo[:5], "root 0 0", "toarr 1 0", "add 1 %s 6b" % ("sl 3" if False else ("sjl" if linked else "sc"))]
                        ops += ["add 1 i %d" % i for i in range(fill)]
                        ops += ["addv 2 1", "obs 0 1 2"]
                        if fk:
                            ops.append("failat 0 %d" % fk)
                        ops += ["deser%s 2 10 %s" % (fmt, data.hex()), "obs 0 1 2", "obsx 1", "nofail 0", "remi 1 0", "obs 0 1", "hser 0", "cleardoc 0", "ledger"]
                        cases += [Case(o, exp=None) for o in ops]
        return cases


class FlagTravelSuite(HistSuite):
    """C05: the overflowed() flag belongs to the document's content: after a failed operation it travels with the content through swap and
    move-assignment, a copy of a flagged document is a fresh document, and clear() resets it. Static histories compared with the model."""
    name = "flagtravel"

    def generate(self, rng, tier):
        geo = geo_of(self.cfg)
        cases = []
        for fk in (1, 2, 3):
            for filler in (0, 2, 7):
                for second in ("swapdoc 0 1", "swapdoc 1 0", "copydoc 1 0", "copydoc 0 1", "swapdoc 0 0"):
                    ops = ["reset", "geo %d %d %d %d %d" % geo[:5], "root 0 0", "toarr 1 0", "root 2 1", "toobj 3 2", "setm 3 6b i 5"]
                    ops += ["add 1 i %d" % i for i in range(filler)]
                    ops += ["failat 0 %d" % fk, "add 1 sc 68656c6c6f20776f726c64", "add 1 d 3fb999999999999a", "add 1 sc 7878", "nofail 0", "obs 0 1 2 3",
                            second, "obs", "root 4 0", "root 5 1", "add 4 sc 6162", "setm 5 7a sc 6364", "obs 4 5", "copydoc 2 0", "copydoc 2 1", "obs", "cleardoc 0", "cleardoc 1", "root 4 0", "add 4 sc 6162", "obs 4",
                            "cleardoc 0", "cleardoc 1", "cleardoc 2", "ledger"]
                    cases += [Case(o, exp=None) for o in ops]
        return cases

class LimitSuite(HistSuite):
    """C19: histories that sit at, one below and one above the slot limit (1-byte slot ids: 255 slots)"""
    name = "limit"

    def generate(self, rng, tier):
        geo = geo_of(self.cfg)
        cases = []
        limit = 2 ** (8 * geo[2]) - 1
        if limit > (70000 if tier == "thorough" else 1000):
            return self.refcount_cases(geo) + self.strlimit_cases(geo)
        for extra in (0, 1, 5):
            ops = ["reset", "geo %d %d %d %d %d" % geo[:5], "root 0 0", "toarr 1 0"]
            n = limit + extra
            for i in range(n):
                ops.append("add 1 i %d" % i)
                if i % 64 == 0 or i >= limit - 3:
                    ops.append("obs 0 1")
            ops += ["obs 0 1", "remi 1 0", "remi 1 0", "obs 0 1", "add 1 i 777", "add 1 sc 6162", "obs 0 1", "cleardoc 0", "obs 0", "root 0 0", "add 0 i 1", "obs 0"]
            # the last free slot goes to a value that also needs an extension slot (double, 64-bit integer): clean failure, flag set
            if extra == 0:
                ops += ["cleardoc 0", "root 0 0", "toarr 1 0"]
                for i in range(limit - 1):
                    ops.append("add 1 i %d" % i)
                # exactly one slot left: the element slot is obtained, the extension slot is not
                ops += ["obs 0", "add 1 d 3fb999999999999a", "obs 0", "cleardoc 0", "root 0 0", "toarr 1 0"]
                for i in range(limit - 1):
                    ops.append("add 1 i %d" % i)
                ops += ["add 1 i 9223372036854775807", "obs 0", "remi 1 0", "remi 1 0", "add 1 d 3fb999999999999a", "obs 0 1",
                        "cleardoc 0", "root 0 0", "toarr 1 0", "add 1 d 3fb999999999999a", "obs 0 1"]
            # the cleared document grows past its built-in pools again (twice: through clear() and through to<JsonArray>())
            refill = geo[0] * geo[1] + geo[0] + 2
            for rnd_ in range(2):
                ops += ["cleardoc 0", "root 0 0", "toarr 1 0"] if rnd_ == 0 else ["toarr 1 0"]
                for i in range(refill):
                    ops.append("add 1 i %d" % (i * 3))
                ops += ["obs 0 1"]
            ops += ["cleardoc 0", "ledger"]
            for o in ops:
                cases.append(Case(o, exp=None, limit=limit))
        cases += self.refcount_cases(geo) + self.strlimit_cases(geo) + self.growfail_cases(geo)
        return cases

    def growfail_cases(self, geo):
        """every allocator call of a growing document fails once (pool blocks, the first and the later growths of the pool table): the failing
        add() reports it, and the document can still be read, extended, cleared and reused afterwards"""
        if geo[0] * geo[1] > 40:
            return []
        E = []
        n = 8 * geo[0] * geo[1] + 6
        for k in range(1, 16):
            ops = ["reset", "geo %d %d %d %d %d" % geo[:5], "root 0 0", "toarr 1 0", "failat 0 %d" % k]
            ops += ["add 1 i %d" % i for i in range(n)]
            ops += ["obs 0 1", "nofail 0", "add 1 i 777", "add 1 sc 6162", "obs 0 1", "hser 0", "remi 1 0", "obs 0 1", "cleardoc 0", "root 0 0", "toarr 1 0"]
            ops += ["add 1 i %d" % i for i in range(n)]
            ops += ["obs 0 1", "cleardoc 0", "ledger"]
            E += [Case(o, exp=None, limit=10 ** 9) for o in ops]
        return E

    def strlimit_cases(self, geo):
        """strings of exactly the longest storable length and one byte more (STRING_LENGTH_SIZE): the longer one must fail cleanly -
        false, overflowed() set, nothing stored, document intact and usable. The slot-level model has no length limit
        (C19.model_has_no_string_length_limit), so these lines are judged against the stated expectation only."""
        lenb = self.cfg.get("STRING_LENGTH_SIZE", 2)
        if lenb >= 4:
            return []
        L = 2 ** (8 * lenb) - 1
        ok, bad = "61" * L, "61" * (L + 1)
        okk, badk = "6b" * L, "6b" * (L + 1)
        E = []

        def step(op, want=None, has=None, hasnot=None):
            E.append(Case(op, exp=None, limit=10 ** 9, nocompare=True, want=want, has=has, hasnot=hasnot))
        step("reset"); step("geo %d %d %d %d %d" % geo[:5])
        step("root 0 0"); step("set 0 sc " + ok, want="1"); step("obs 0", has="obs S" + ok + " n=0 z=0 o=0 ;")
        step("set 0 sc " + bad, want="0"); step("obs 0", has="obs N n=0 z=0 o=1 ;")
        step("cleardoc 0"); step("root 0 0"); step("set 0 raw " + bad, want="0"); step("obs 0", has="obs N n=0 z=0 o=1 ;")
        step("cleardoc 0"); step("root 0 0"); step("toarr 1 0"); step("add 1 i 7", want="1"); step("add 1 sc " + bad, want="0")
        step("obs 0", has="obs [I7] n=1 z=1 o=1 ;")
        step("cleardoc 0"); step("obs 0", has="obs N n=0 z=0 o=0 ;")
        step("root 0 0"); step("toarr 1 0"); step("add 1 sc 6869", want="1"); step("obs 0", has="obs [S6869] n=1 z=1 o=0 ;"); step("cleardoc 0")
        step("root 0 0"); step("toobj 1 0"); step("setm 1 %s i 42" % okk, want="1"); step("setm 1 %s i 43" % badk, want="0")
        step("obs 0", has="obs {" + okk + ":I42} n=1 z=1 o=1 ;", hasnot=badk)
        step("cleardoc 0"); step("obs 0", has="obs N n=0 z=0 o=0 ;")
        # a string one byte too long whose length wraps to that of a string that IS in the document (the empty string; a short prefix)
        step("root 0 0"); step("toarr 1 0"); step("add 1 sc -", want="1"); step("add 1 sc 6964", want="1"); step("add 1 sc " + bad, want="0")
        step("add 1 sc 6964" + "78" * (L + 1), want="0"); step("obs 0", has="obs [S,S6964] n=1 z=2 o=1 ;")
        step("cleardoc 0"); step("root 0 0"); step("toobj 1 0"); step("setm 1 6964 i 1", want="1"); step("setm 1 %s i 2" % ("6964" + "78" * (L + 1)), want="0")
        step("obs 0", has="obs {6964:I1} n=1 z=1 o=1 ;")
        step("cleardoc 0"); step("ledger")
        return E

    def refcount_cases(self, geo):
        """many values sharing one copied string (the reference counter is as wide as a slot id): the string must survive until its last user goes"""
        n = getattr(self, "users", 300)
        ops = ["reset", "geo %d %d %d %d %d" % geo[:5], "root 0 0", "toarr 1 0"]
        for i in range(n):
            ops.append("add 1 sc 7368617265642d737472696e67")
            if i in (254, 255, 256, 257):
                ops.append("obs 0")
        ops += ["remi 1 0", "obs 0", "hser 0", "remi 1 0", "remi 1 1", "obs 0 1", "set 1 null -", "obs 0", "cleardoc 0", "ledger"]
        return [Case(o, exp=None, limit=10 ** 9) for o in ops]

    def oracle(self, case, h):
        o = Suite.oracle(self, case, h)
        if o:
            return (o[0], o[1] + " at '%s' near the slot limit" % case.line[:60])
        body, _, log = h.partition("|")
        op, _, out = body.partition(" ")
        if op == "ledger" and out.strip() != "L0=0 L1=0 L2=0":
            return ("limit:leak", "blocks left after clear(): " + out)
        m = case.meta
        if m.get("want") is not None and out.strip() != m["want"]:
            return ("limit:string-length", "'%s…' returned %s, expected %s (string length limit)" % (case.line[:40], out.strip(), m["want"]))
        if m.get("has") and not body.startswith(m["has"]):
            return ("limit:string-length", "after the string-length scenario: '%s…', expected to start with '%s…'" % (body[:60], m["has"][:60]))
        if m.get("hasnot") and m["hasnot"] in body:
            return ("limit:string-length", "a key longer than the limit is present in the document")
        return None

    def post(self, cases, ho):
        """add() reports success iff the element is really there: size() must equal the number of successful add() calls"""
        out = []
        ok = 0
        for c, h in zip(cases, ho):
            if is_crash(h):
                ok = 0
                continue
            body = h.partition("|")[0]
            op, _, res = body.partition(" ")
            if op == "reset":
                ok = 0
            elif op == "add" and c.line.startswith("add 1 "):
                ok += 1 if res.strip() == "1" else 0
            elif op == "remi":
                ok -= 1
            elif op == "cleardoc":
                ok = -10 ** 9
            elif op == "obs" and ok >= 0:
                m = re.search(r"r1=\[.*?\] z=(\d+)", body)
                if m and int(m.group(1)) != ok:
                    out.append(("limit:size-mismatch", "%d add() calls reported success but size() is %s" % (ok, m.group(1)), c))
                    ok = -10 ** 9
                if ok > c.meta["limit"]:
                    out.append(("limit:exceeded", "more than %d slots handed out" % c.meta["limit"], c))
                    ok = -10 ** 9
        return out


# ================================================================================================ C20: threads
class ThreadSuite(Suite):
    """the same per-thread workloads sequentially and concurrently on distinct documents (shared read-only document, shared default allocator)"""
    name = "threads"
    uses_driver = False

    def run_custom(self, ajlib, rng, tier):
        import subprocess
        cfg = dict(self.cfg)
        tsan = tier == "thorough"
        if tsan:
            cfg["tsan"] = 1
        exe, err = ajlib.build_harness(cfg, source="thread_harness.cpp")
        if exe is None:
            return {"error": err}
        n = 600 if tier == "quick" else 4000
        texts = []
        for i in range(n):
            _, t = gens.gen_json_doc(rng, maxdepth=3, budget=rng.choice([3, 8, 14]))
            if rng.random() < 0.15:
                t = gens.mutate(rng, t)
            texts.append(t.hex())
        rounds = 4 if tier == "quick" else 30
        env = dict(__import__("os").environ)
        env["TSAN_OPTIONS"] = "halt_on_error=1:exitcode=66"
        env["ASAN_OPTIONS"] = "detect_leaks=0:exitcode=77"
        p = subprocess.run([exe, "8", str(rounds)], input="\n".join(texts) + "\n", stdout=subprocess.PIPE, stderr=subprocess.PIPE, text=True, env=env, timeout=3000)
        res = {"evaluations": n * rounds, "features": {("text", t) for t in texts if len(t) > 8}, "samples": [{"suite": "threads", "line": texts[0][:200], "implementation": p.stdout[:300]}], "violations": []}
        if p.returncode != 0 or not p.stdout.startswith("ok"):
            what = p.stdout.strip()[:600] or ajlib.crash_kind(p.stderr)
            if "ThreadSanitizer" in p.stderr:
                what = "ThreadSanitizer: " + " | ".join(l.strip() for l in p.stderr.splitlines() if "data race" in l or "#0" in l or "Location is" in l)[:600]
            res["violations"].append(("threads:diverges" if "DIVERGENCE" in p.stdout else "threads:race-or-crash",
                                      "concurrent use of distinct documents differs from the sequential run: " + what,
                                      {"suite": "threads", "cfg": cfg, "source": "thread_harness.cpp", "argv": ["8", str(rounds)], "texts": texts[:50], "what": what}))
        return res


class ReuseSuite(Suite):
    """C03: a document that is filled, traversed, serialized and reused — including documents larger than the inline pool table can hold"""
    name = "reuse"

    def generate(self, rng, tier):
        cb = cfgbits(self.cfg)
        n = getattr(self, "n", 150 if tier == "quick" else 8000)
        cases = []

        def big(k):
            r = rng.random()
            if r < 0.4:
                return b"[" + b",".join(rng.choice([b"1", b"null", b'"s"', b"2.5", b"[]", b"{}"]) for _ in range(k)) + b"]"
            if r < 0.7:
                return b"{" + b",".join(b'"k%d":%d' % (i, i) for i in range(k)) + b"}"
            return b"[" + b",".join(b'{"a":[%d,"x"]}' % i for i in range(k // 4 + 1)) + b"]"
        sizes = [0, 1, 3, 5, 9, 20, 300, 1024, 1025, 1100, 1300, 2100]
        for i in range(n):
            a = big(rng.choice(sizes)) if rng.random() < 0.5 else gens.gen_json_doc(rng)[1]
            b = big(rng.choice(sizes)) if rng.random() < 0.5 else gens.gen_json_doc(rng)[1]
            if rng.random() < 0.15:
                a = gens.mutate(rng, a)
            if rng.random() < 0.5:
                cases.append(Case("jsonre %d 10 %s %s" % (cb, hx(a), hx(b)), a=a, b=b))
            else:
                va = mpack.gen_value(rng) if rng.random() < 0.5 else ("arr", [("int", j) for j in range(rng.choice(sizes))])
                vb = mpack.gen_value(rng) if rng.random() < 0.5 else ("map", [(("str", b"k%d" % j), ("nil",)) for j in range(rng.choice(sizes))])
                cases.append(Case("mpre 10 %s %s" % (hx(mpack.encode(va, rng)), hx(mpack.encode(vb, rng))), a=b"", b=b""))
        return cases

    def oracle(self, case, h):
        o = Suite.oracle(self, case, h)
        if o:
            return (o[0], o[1] + " while reusing a document: " + case.line[:80])
        parts = h.split(" ; ")
        if len(parts) == 3 and parts[0] != parts[2]:
            return ("reuse:not-idempotent", "deserializing the same input into a reused document gives another result: '%s' vs '%s'" % (parts[0][:80], parts[2][:80]))
        return None

    def feature(self, case, h):
        return case.line[:200]


class DeserFaultSuite(Suite):
    """C05 for deserialization: for each input, EVERY single-failure position and EVERY fail-from-k schedule (enumerated inside the harness):
    failure reported as NoMemory + overflowed(), partial document traversable and serializable, nothing leaked after clear(), document usable again"""
    name = "deserfault"
    uses_driver = False

    def generate(self, rng, tier):
        n = getattr(self, "n", 500 if tier == "quick" else 30000)
        cases = []
        fixed = [b'[""]', b'{"":1}', b'{"a":""}', b'["x","","y"]', b'["\\u00e9"]', b'{"k\\u0041":"v\\u0042"}', b'[1,2.5,1e300,18446744073709551615,-9223372036854775808]',
                 b'{"a":{"b":{"c":[1,2,{"d":"e"}]}}}', b'["dup","dup","dup"]', b'[[],[[]],{}]', b'"just a string"', b'[' + b",".join(b'"s%d"' % i for i in range(40)) + b']']
        for t in fixed:
            cases.append(Case("dfaultall j %s" % hx(t), text=t))
        for i in range(n):
            if rng.random() < 0.6:
                _, t = gens.gen_json_doc(rng, maxdepth=3, budget=rng.choice([3, 8, 14]))
                if rng.random() < 0.1:
                    t = gens.mutate(rng, t)
                cases.append(Case("dfaultall j %s" % hx(t), text=t))
            else:
                v = mpack.gen_value(rng, maxdepth=3)
                data = mpack.encode(v, rng)
                if rng.random() < 0.1:
                    data = gens.mutate(rng, data)
                cases.append(Case("dfaultall m %s" % hx(data), text=data))
        return cases

    def oracle(self, case, h):
        o = Suite.oracle(self, case, h)
        if o:
            return (o[0], o[1] + " while deserializing %r under an allocation-failure schedule" % case.meta["text"][:60])
        if " BAD " in h:
            what = h.split(" BAD ", 1)[1]
            kind = "leak" if "still allocated" in what or "left after" in what else ("not-reported" if "but" in what else "other")
            return ("deserfault:" + kind, "input %r: %s" % (case.meta["text"][:60], what))
        return None

    def feature(self, case, h):
        m = re.match(r"N=(\d+)", h or "")
        return case.line if m and int(m.group(1)) > 0 else None
