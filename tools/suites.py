"""Correspondence suites: each produces operation lines, compares implementation and model outputs, and evaluates the
property oracle directly on the implementation's output (independent of the Lean model)."""
import json, re, struct
from fractions import Fraction
import gens, mpack
from gens import parse_tree, show_tree, num_value

CODES = ("Ok", "EmptyInput", "IncompleteInput", "InvalidInput", "NoMemory", "TooDeep")


class Case:
    __slots__ = ("line", "meta")

    def __init__(self, line, **meta):
        self.line = line
        self.meta = meta


def is_crash(h):
    return h is None or h.startswith("CRASH") or h.startswith("HANG") or h == "SKIPPED"


def hx(b):
    return b.hex() if b else "-"


class Suite:
    name = "suite"
    cfg = {}          # harness build configuration

    def __init__(self, **kw):
        self.__dict__.update(kw)

    def generate(self, rng, tier):
        return []

    def canon_h(self, case, h):
        op = case.line.split(" ", 1)[0]
        if op in ("jsonrt", "mprt", "cross") and (h.endswith(" eq") or h.endswith(" ne")):
            return h[:-3]
        return h

    def canon_m(self, case, m):
        return m

    def compare(self, case, h, m):
        """None if implementation and model agree on this case, else a short description"""
        if m == "FAULT" or m.startswith("FAULT "):
            return None if is_crash(h) else "model predicts a fault, implementation returned: %s" % h[:100]
        if is_crash(h):
            return "implementation %s, model: %s" % (h, m[:100])
        a, b = self.canon_h(case, h), self.canon_m(case, m)
        return None if a == b else "impl: %s | model: %s" % (a[:160], b[:160])

    def oracle(self, case, h):
        """None if the property holds on this case, else (signature, description)"""
        if is_crash(h):
            return ("crash:" + self.name + ":" + h, "the library crashed or hung: " + h)
        return None

    def feature(self, case, h):
        """key describing which non-trivial behaviour the case exercised (None = trivial)"""
        return None

    def neighbours(self, case, rng):
        return []


def cfgbits(cfg):
    return (1 if cfg.get("ENABLE_COMMENTS") else 0) | (2 if cfg.get("ENABLE_NAN") else 0) | (4 if cfg.get("ENABLE_INFINITY") else 0) | \
           (8 if cfg.get("DECODE_UNICODE", 1) else 0)


# ================================================================================================ C17: unicode
class UniSuite(Suite):
    """exhaustive: every \\uXXXX code unit in three hex-case spellings, surrogate pairs, and at key / mid-string positions"""
    name = "uni"

    def generate(self, rng, tier):
        cb = cfgbits(self.cfg)
        cases = []

        def spell(cu, mode):
            h = "%04x" % cu
            if mode == 1:
                h = h.upper()
            elif mode == 2:
                h = "".join(c.upper() if (i + cu) % 2 else c for i, c in enumerate(h))
            return b"\\u" + h.encode()
        for cu in range(0x10000):
            for mode in range(3):
                txt = b'"' + spell(cu, mode) + b'"'
                cases.append(Case("jsonde %d 0 10 %s" % (cb, txt.hex()), kind="unit", cu=cu, pre=b"", post=b""))
        # position independence: inside a string and inside a key
        for cu in list(range(0, 0x10000, 97)) + [0x7F, 0x80, 0x7FF, 0x800, 0xD7FF, 0xE000, 0xFFFF]:
            txt = b'{"k' + spell(cu, cu % 3) + b'z":"a' + spell(cu, (cu + 1) % 3) + b'b"}'
            cases.append(Case("jsonde %d 0 10 %s" % (cb, txt.hex()), kind="pos", cu=cu))
        # surrogate pairs
        if tier == "thorough":
            his = range(0xD800, 0xDC00)
            los = lambda hi: range(0xDC00, 0xE000)
        else:
            his = range(0xD800, 0xDC00)
            los = lambda hi: [0xDC00 + ((hi * 37 + 11 * j) % 1024) for j in range(24)] + [0xDC00, 0xDFFF]
        for hi in his:
            for lo in los(hi):
                txt = b'"' + spell(hi, hi % 3) + spell(lo, lo % 3) + b'"'
                cases.append(Case("jsonde %d 0 10 %s" % (cb, txt.hex()), kind="pair", hi=hi, lo=lo))
        if tier != "thorough":
            for lo in range(0xDC00, 0xE000):
                for hi in [0xD800, 0xDBFF, 0xD800 + (lo * 7) % 1024]:
                    txt = b'"' + spell(hi, 0) + spell(lo, 1) + b'"'
                    cases.append(Case("jsonde %d 0 10 %s" % (cb, txt.hex()), kind="pair", hi=hi, lo=lo))
        # unpaired / reversed surrogates never crash
        for s in [b'"\\udc00"', b'"\\ud800"', b'"\\udc00\\ud800"', b'"\\ud800x"', b'"\\ud800\\u0041"', b'"\\ud800\\ud800\\udc00"', b'"a\\udfffb\\udbff"']:
            cases.append(Case("jsonde %d 0 10 %s" % (cb, s.hex()), kind="unpaired"))
        # escaping is the inverse: every byte and every byte pair as string content and as key
        for a in range(256):
            cases.append(Case("jsonrt %d t:S%02x" % (cb, a), kind="rt", content=bytes([a])))
            cases.append(Case("jsonrt %d t:{%02x:N}" % (cb, a), kind="rtkey", content=bytes([a])))
        step = 1 if tier == "thorough" else 1
        for a in range(0, 256, step):
            for b in range(256):
                cases.append(Case("jsonrt %d t:S%02x%02x" % (cb, a, b), kind="rt", content=bytes([a, b])))
        return cases

    ESC = {0x22: b'\\"', 0x5C: b"\\\\", 0x08: b"\\b", 0x0C: b"\\f", 0x0A: b"\\n", 0x0D: b"\\r", 0x09: b"\\t", 0x00: b"\\u0000"}

    def oracle(self, case, h):
        o = Suite.oracle(self, case, h)
        if o:
            return o
        k = case.meta["kind"]
        f = h.split(" ")
        if k == "unit":
            cu = case.meta["cu"]
            if 0xD800 <= cu < 0xE000:
                return None
            want = "Ok S%s" % gens.utf8(cu).hex()
            if " ".join(f[:2]) != want:
                return ("uni:bmp", "\\u%04x decoded to '%s', expected '%s'" % (cu, " ".join(f[:2]), want))
        elif k == "pos":
            cu = case.meta["cu"]
            if 0xD800 <= cu < 0xE000:
                return None
            u = gens.utf8(cu).hex()
            want = "Ok {6b%s7a:S61%s62}" % (u, u)
            if " ".join(f[:2]) != want:
                return ("uni:position", "\\u%04x inside key/string decoded to '%s', expected '%s'" % (cu, " ".join(f[:2]), want))
        elif k == "pair":
            cp = 0x10000 + ((case.meta["hi"] - 0xD800) << 10) + (case.meta["lo"] - 0xDC00)
            want = "Ok S%s" % gens.utf8(cp).hex()
            if " ".join(f[:2]) != want:
                return ("uni:pair", "\\u%04x\\u%04x decoded to '%s', expected '%s'" % (case.meta["hi"], case.meta["lo"], " ".join(f[:2]), want))
        elif k in ("rt", "rtkey"):
            c = case.meta["content"]
            text = bytes.fromhex(f[1]) if f[1] != "-" else b""
            want_tree = ("S" + c.hex()) if k == "rt" else "{%s:N}" % c.hex()
            if f[2] != "Ok" or f[3] != want_tree:
                return ("uni:roundtrip", "bytes %s came back as '%s %s'" % (c.hex(), f[2], f[3]))
            esc = b"".join(self.ESC.get(x, bytes([x])) for x in c)
            want_text = (b'"' + esc + b'"') if k == "rt" else (b'{"' + esc + b'":null}')
            if text != want_text:
                return ("uni:escape-minimal", "bytes %s serialized as %r, expected %r" % (c.hex(), text, want_text))
        return None

    def feature(self, case, h):
        k = case.meta["kind"]
        if k == "unit":
            return "unit:%04x" % case.meta["cu"] if case.meta["cu"] >= 0x80 else None
        if k == "pair":
            return "pair:%x:%x" % (case.meta["hi"], case.meta["lo"])
        if k in ("rt", "rtkey"):
            c = case.meta["content"]
            return (k + ":" + c.hex()) if any(x in self.ESC or x >= 0x80 for x in c) else None
        return k + ":" + case.line[-12:]


# ================================================================================================ JSON deserialization
READER_KINDS = [0, 1, 2, 3, 4, 5, 6, 7, 8]


class JsonValidSuite(Suite):
    """C01: grammar-generated RFC 8259 texts whose denoted value the generator knows"""
    name = "jsonvalid"

    def generate(self, rng, tier):
        cb = cfgbits(self.cfg)
        n = self.n if hasattr(self, "n") else (6000 if tier == "quick" else 400000)
        cases = []
        for i in range(n):
            lim = rng.choice([10, 10, 10, 4, 5, 6, 50])
            exp, txt = gens.gen_json_doc(rng, maxdepth=min(lim, rng.choice([1, 2, 3, 4, 5])), budget=rng.choice([3, 8, 14, 30]))
            rk = rng.choice(READER_KINDS) + (100 if rng.random() < 0.3 else 0)
            if (rk % 100) in (1, 6) and b"\x00" in txt:
                rk = 2
            cases.append(Case("jsonde %d %d %d %s" % (cb, rk, lim, txt.hex()), exp=exp, text=txt))
        return cases

    def canon_h(self, case, h):
        f = h.split(" ")
        if len(f) >= 3 and f[2] == "-":
            return " ".join(f[:2])
        return h

    def canon_m(self, case, m):
        rk = int(case.line.split(" ")[2]) % 100
        if rk not in (0, 5, 8):
            return " ".join(m.split(" ")[:2])
        return m

    def oracle(self, case, h):
        o = Suite.oracle(self, case, h)
        if o:
            return o
        f = h.split(" ")
        txt = case.meta["text"]
        if f[0] != "Ok":
            body = txt.strip(b" \t\r\n")
            topnum = body[:1] in b"-0123456789" and txt.rstrip(b" \t\r\n") != txt
            return ("jsonvalid:rejected" + (":top-level-number-then-whitespace" if topnum else ""),
                    "valid RFC 8259 text %r gave %s" % (txt[:80], f[0]))
        if "NOT-NUL-TERMINATED" in h:
            return ("jsonvalid:not-nul-terminated", "as<const char*>() is not NUL-terminated at size()")
        probs = gens.match_expected(case.meta["exp"], parse_tree(f[1]))
        if probs:
            sig = "jsonvalid:wrong-value"
            if any("relative error" in p or "infinity" in p or "magnitude" in p for p in probs):
                sig = "jsonvalid:number-accuracy"
            elif any("expected keys" in p for p in probs) and b"\\u0000" in txt:
                sig = "jsonvalid:key-with-nul"
            return (sig, "text %r: %s" % (txt[:80], "; ".join(probs[:3])))
        return None

    def feature(self, case, h):
        t = case.meta["text"]
        return t if len(t) > 6 else None

    def neighbours(self, case, rng):
        return []
