#!/usr/bin/env python3
import os, subprocess, sys
ROOT = os.path.dirname(os.path.dirname(os.path.abspath(__file__)))
t = subprocess.run([sys.executable, os.path.join(ROOT, "tools", "seeded_table.py")], stdout=subprocess.PIPE, text=True).stdout
p = os.path.join(ROOT, "DESIGN.md")
s = open(p).read()
a = s.index("<!-- SEEDED-TABLE-BEGIN -->") + len("<!-- SEEDED-TABLE-BEGIN -->")
b = s.index("<!-- SEEDED-TABLE-END -->")
open(p, "w").write(s[:a] + "\n" + t + s[b:])
print("DESIGN.md seeded table updated")
